// Package c18 monitors property C18: genesis export / import round-trips the custom modules' state.
package c18

import (
	"encoding/hex"
	"fmt"
	"math/big"
	"runtime"
	"runtime/debug"
	"strings"
	"sync"

	sdkmath "cosmossdk.io/math"
	sdk "github.com/cosmos/cosmos-sdk/types"
	"github.com/ethereum/go-ethereum/common"
	"github.com/ethereum/go-ethereum/core/vm"
	"github.com/ethereum/go-ethereum/crypto"

	cpcabi "github.com/EscanBE/evermint/v12/x/cpc/abi"
	cpctypes "github.com/EscanBE/evermint/v12/x/cpc/types"
	evmtypes "github.com/EscanBE/evermint/v12/x/evm/types"
	feemarkettypes "github.com/EscanBE/evermint/v12/x/feemarket/types"
	vauthtypes "github.com/EscanBE/evermint/v12/x/vauth/types"

	"verifharness/vh"
)

type recorder struct {
	viol []struct {
		sig, label string
		detail     any
	}
	samples []any
}

type hist struct {
	run   *vh.Run
	rec   *recorder
	label string
	i     int
	r     *vh.RNG
	w     *vh.World
	c     *vh.Chain
	cfg   vh.Config
	seqs  *vh.Seqs

	native, staking bool
	finiteGas       bool

	dep      *vh.Acct   // whitelisted cpc deployer, holds the extra denominations
	holders  []*vh.Acct // hold the extra denominations, approve spenders
	proposer *vh.Acct
	proven   []*vh.Acct // accounts whose ownership gets proven (never send transactions)

	storeC, burner, factory, child common.Address
	childAlive                     bool
	erc20s                         []common.Address
	extraDenoms                    []string
	govDone                        bool
	reported                       map[string]int
	roundTrips                     int
	childPresent, recreated        bool
	destroyCount                   int
	govMinGas                      sdkmath.LegacyDec
	wideSlots                      [][]byte
	edgeDeployers                  []*vh.Acct // keys whose first contract lands at an address starting with 0xff / 0x00
	govNoExtraEIPs                 bool       // the governance proposal of this history sets the extra EIP list to empty
	hugeBaseFee                    bool       // quiet history: base fee above 2^64, empty blocks only
}

// Run drives the C18 workload.
func Run(run *vh.Run) {
	n := run.N(16, 200) // histories; every second one adds a mid-history round trip
	blocks := 40
	workers := runtime.NumCPU()
	if workers > 8 {
		workers = 8
	}
	if workers < 1 {
		workers = 1
	}
	recs := make([]*recorder, n)
	var wg sync.WaitGroup
	sem := make(chan struct{}, workers)
	for i := 0; i < n; i++ {
		label := fmt.Sprintf("rt-%d", i)
		if !run.WantCase(label) {
			continue
		}
		recs[i] = &recorder{}
		wg.Add(1)
		sem <- struct{}{}
		go func(i int, label string) {
			defer wg.Done()
			defer func() { <-sem }()
			defer func() {
				if p := recover(); p != nil {
					recs[i].viol = append(recs[i].viol, struct {
						sig, label string
						detail     any
					}{"panic-while-driving-history", label,
						map[string]any{"panic": fmt.Sprint(p), "stack": clip(string(debug.Stack()), 6000)}})
				}
			}()
			h := newHist(run, recs[i], label, i)
			defer h.c.Cleanup()
			h.play(blocks)
		}(i, label)
	}
	wg.Wait()
	for k := 0; k < run.N(3, 20); k++ {
		label := fmt.Sprintf("rt-huge-base-fee-%d", k)
		if !run.WantCase(label) {
			continue
		}
		rc := &recorder{}
		recs = append(recs, rc)
		func() {
			defer func() {
				if p := recover(); p != nil {
					rc.viol = append(rc.viol, struct {
						sig, label string
						detail     any
					}{"panic-while-driving-history", label, map[string]any{"panic": fmt.Sprint(p), "stack": clip(string(debug.Stack()), 6000)}})
				}
			}()
			h := newHist(run, rc, label, -1-k)
			defer h.c.Cleanup()
			h.play(blocks)
		}()
	}
	for _, rc := range recs {
		if rc == nil {
			continue
		}
		for _, s := range rc.samples {
			run.Sample(s)
		}
		for _, v := range rc.viol {
			run.Violation(v.sig, v.label, v.detail)
		}
	}
	run.Rule = "Histories = 40-block runs on real chains over all four (Erc20Native, StakingCPC) flag combinations x (finite, unlimited) block gas with non-default genesis fee-market params: 8 generated contracts (vh.GenProgram: SSTORE of zero and non-zero values, CREATE/CREATE2, SELFDESTRUCT) called with random data, a hand-written slot store (small and full-width random slot keys / values set, overwritten, set to zero), " +
		"a CREATE2 factory whose child is created, self-destructed and re-created at the same address, accounts with storage but no code (init code that stores and returns empty code), gas burners filling blocks (finite block gas), dynamically deployed ERC-20 precompiles for extra bank denominations, approve() calls on native and dynamic ERC-20 precompiles (set, overwrite, reset to 0), " +
		"vauth ownership proofs, and one passed governance proposal changing evm (extra EIP 1344), fee-market (min gas price) and cpc (whitelist) params. Round trip at the end of every history and additionally mid-history in every second one: export -> fresh app -> InitChain(export) as CometBFT would send it -> one empty block on both apps -> comparison of the custom modules' stores by item kind -> second export compared section-wise (evm, feemarket, cpc, vauth) with the export of the original app at the same height. " +
		"Non-trivial = distinct (item kind present in the exported state x flag combination x block-gas variant)."
	run.Assumptions = append(run.Assumptions,
		"the import is what `evmd export` + `evmd start` perform: RequestInitChain{genesis time, chain id, initial height = exported height, exported consensus params, exported validators, exported app state}",
		"state is compared after both applications executed the same empty block at the exported height (InitChain state only becomes readable after a commit); a difference therefore means the two apps diverge on identical input",
		"the history of block hashes (BLOCKHASH opcode) restarts with any new genesis and is not compared; code blobs no account refers to are not compared",
		"nonce / balance of contract accounts belong to x/auth and x/bank and are not part of this property",
		"a stored all-zero storage value reads as 0 exactly like an absent slot and is treated as equal to it")
	run.Floor("round trips completed", run.Get("round_trips"), int64(run.N(4, 100)))
	run.Floor("contracts with code compared", run.Get("cmp_contracts_with_code"), int64(run.N(60, 1500)))
	run.Floor("non-zero storage slots compared", run.Get("cmp_storage_slots_nonzero"), int64(run.N(60, 1500)))
	run.Floor("zero-valued stored slots in exported states", run.Get("state_zero_valued_slots"), int64(run.N(4, 100)))
	run.Floor("histories with a re-created self-destructed contract", run.Get("hist_recreated_contract"), int64(run.N(3, 75)))
	run.Floor("code-less accounts with storage in exported states", run.Get("state_codeless_storage_accounts"), int64(run.N(3, 75)))
	run.Floor("dynamic ERC-20 precompiles in exported states", run.Get("state_erc20_dynamic"), int64(run.N(4, 100)))
	run.Floor("allowances in exported states", run.Get("state_allowances"), int64(run.N(8, 200)))
	run.Floor("vauth proofs in exported states", run.Get("state_vauth_proofs"), int64(run.N(4, 100)))
	run.Floor("histories with governance-changed params", run.Get("hist_gov_params_changed"), int64(run.N(3, 75)))
	run.Floor("round trips with base fee different from genesis", run.Get("state_base_fee_moved"), int64(run.N(4, 100)))
	run.Floor("histories in which governance switched every extra EIP off", run.Get("hist_gov_switched_all_extra_eips_off"), int64(run.N(2, 30)))
	run.Floor("contracts whose runtime code starts with a byte below 0x10", run.Get("contracts_whose_code_starts_with_a_byte_below_0x10"), int64(run.N(40, 700)))
	run.Floor("round trips with a base fee above 2^64", run.Get("round_trips_with_a_base_fee_above_2^64"), int64(run.N(3, 20)))
	run.Floor("contracts at addresses starting with 0xff or 0x00 in exported states", run.Get("state_contracts_at_edge_addresses"), int64(run.N(8, 200)))
	run.Floor("genesis flag combinations", int64(run.DistinctN("flags")), 4)
}

func clip(s string, n int) string {
	if len(s) > n {
		return fmt.Sprintf("%s…(%d bytes)", s[:n], len(s))
	}
	return s
}

func newHist(run *vh.Run, rec *recorder, label string, i int) *hist {
	quiet := i < 0
	if quiet {
		i = 1000 - i // flags, validator count and RNG stream from a positive index of its own
	}
	r := run.RNG("history", i)
	h := &hist{run: run, rec: rec, label: label, i: i, r: r, native: i&1 != 0, staking: i&2 != 0, finiteGas: (i/4)%2 == 0, reported: map[string]int{}}
	h.dep, h.proposer = vh.NewAcct(r), vh.NewAcct(r)
	h.extraDenoms = []string{vh.SecondDenom, "ibc/" + strings.ToUpper(hex.EncodeToString(r.Bytes(32)))}
	extra := func(n int64) sdk.Coins {
		cs := vh.NativeCoins(1000)
		for _, d := range h.extraDenoms {
			cs = cs.Add(sdk.NewCoin(d, sdkmath.NewInt(n)))
		}
		return cs
	}
	accs := []vh.GenAccount{{Addr: h.dep.Addr, Coins: extra(5_000_000)}, {Addr: h.proposer.Addr, Coins: vh.NativeCoins(1000)}}
	// keys mined so that their first contract sits at the edges of the address space (first byte 0xff, 0x00)
	for _, first := range []byte{0xff, 0x00} {
		for {
			a := vh.NewAcct(r)
			if crypto.CreateAddress(a.Addr, 0)[0] == first {
				h.edgeDeployers = append(h.edgeDeployers, a)
				accs = append(accs, vh.GenAccount{Addr: a.Addr, Coins: vh.NativeCoins(1000)})
				break
			}
		}
	}
	for k := 0; k < 3; k++ {
		a := vh.NewAcct(r)
		h.holders = append(h.holders, a)
		accs = append(accs, vh.GenAccount{Addr: a.Addr, Coins: extra(int64(1_000_000 + r.Intn(1_000_000)))})
	}
	for k := 0; k < 3; k++ {
		h.proven = append(h.proven, vh.NewAcct(r))
	}
	cfg := vh.Config{Seed: r.U64(), NumVals: 1 + i%3, Erc20Native: h.native, StakingCPC: h.staking, CpcWhitelist: []string{h.dep.Bech32()},
		Accounts: accs, MutateGenesis: vh.FastGov, MaxGas: -1,
		BaseFee: big.NewInt(int64(vh.Pick(r, []int{1_000_000_000, 7_000_000_000, 50_000_000_000}))), MinGasPrice: vh.Pick(r, []string{"0", "1000", "250000.5"})}
	if h.finiteGas {
		cfg.MaxGas = int64(vh.Pick(r, []int{3_000_000, 5_000_000, 8_000_000}))
	}
	if quiet { // quiet history with a base fee that does not fit 64 bits (nobody can afford a transaction; none is sent)
		h.hugeBaseFee = true
		bf := new(big.Int).Lsh(big.NewInt(int64(2+r.Intn(1000))), 64)
		cfg.BaseFee = bf.Add(bf, new(big.Int).SetUint64(r.U64()))
		cfg.MinGasPrice = vh.Pick(r, []string{"0", "1000", "20000000000000000000.5"})
	}
	for k := 0; k < 6; k++ {
		sl := r.Bytes(32)
		if k == 0 {
			sl[0] = 0xff
		}
		h.wideSlots = append(h.wideSlots, sl)
	}
	h.w = vh.NewWorld(r, vh.WorldOpts{Chain: cfg, NumEOA: 6, Prog: vh.ProgOpts{MaxLen: 7, Depth: 2}})
	h.c = h.w.C
	h.cfg = h.c.Cfg
	h.seqs = h.c.NewSeqs()
	run.Distinct("flags", fmt.Sprintf("erc20native=%v,staking=%v", h.native, h.staking))
	return h
}

func (h *hist) cfgInfo() map[string]any {
	return map[string]any{"history": h.label, "erc20_native": h.native, "staking_cpc": h.staking, "max_gas": h.cfg.MaxGas,
		"genesis_base_fee": h.cfg.BaseFee.String(), "genesis_min_gas_price": h.cfg.MinGasPrice, "validators": h.cfg.NumVals, "height": h.c.Height}
}

func (h *hist) violation(sig string, detail map[string]any) {
	h.reported[sig]++
	h.run.Count("violating_items", 1)
	if h.reported[sig] > 1 { // one witness per kind and history; repetitions are counted
		return
	}
	detail["config"] = h.cfgInfo()
	if i := strings.IndexByte(sig, ':'); i > 0 {
		if how, ok := producedBy[sig[i+1:]]; ok {
			detail["item_produced_by"] = how
		}
	}
	h.rec.viol = append(h.rec.viol, struct {
		sig, label string
		detail     any
	}{sig, h.label, detail})
}

func (h *hist) price() *big.Int {
	p := new(big.Int).Mul(h.c.BaseFee(), big.NewInt(3))
	if p.Sign() == 0 {
		p = big.NewInt(1)
	}
	return p
}

// ethFrom builds an Ethereum transaction of one of the history's own accounts.
func (h *hist) ethFrom(a *vh.Acct, to *common.Address, gas uint64, data []byte) []byte {
	bz, _ := h.c.EthTx(a, vh.LegacyTx(h.seqs.Next(a.Addr), to, nil, gas, h.price(), data))
	return bz
}

func (h *hist) block(txs [][]byte) *vh.BlockResult {
	br := h.c.NextBlock(txs, nil)
	h.w.ResetPending()
	h.seqs.Reset()
	h.run.Count("blocks", 1)
	h.run.Count("txs", len(txs))
	if br.Err != nil {
		h.violation("finalize-block-error", map[string]any{"err": br.Err.Error()})
		return br
	}
	for _, res := range br.TxResults() {
		if res.Code == 0 {
			h.run.Count("txs_ok", 1)
		}
	}
	return br
}

// ---- hand-written programs -------------------------------------------------------------

// slot store: calldata = slot(32) | value(32) -> SSTORE
func slotStoreCode() []byte {
	return vh.NewAsm().PushU(32).Op(vm.CALLDATALOAD).PushU(0).Op(vm.CALLDATALOAD, vm.SSTORE, vm.STOP).Bytes()
}

// burner: consumes all gas it is given
func burnerCode() []byte { return vh.NewAsm().Label("l").Jump("l").Bytes() }

// child of the factory: no calldata -> slot1 := 7 ; any calldata -> selfdestruct(caller)
func childRuntime() []byte {
	return vh.NewAsm().Op(vm.CALLDATASIZE).JumpI("d").SStore(1, 7).Op(vm.STOP).Label("d").Op(vm.CALLER, vm.SELFDESTRUCT).Bytes()
}

// initStoring wraps runtime into init code that first stores slot0 := marker
func initStoring(marker uint64, runtime []byte) []byte {
	pre := vh.NewAsm().SStore(0, marker).Bytes()
	n := len(runtime)
	off := len(pre) + 13
	d := []byte{0x61, byte(n >> 8), byte(n), 0x80, 0x61, byte(off >> 8), byte(off), 0x60, 0x00, 0x39, 0x60, 0x00, 0xf3}
	return append(append(pre, d...), runtime...)
}

// factory: every call does CREATE2(salt 1, child init) and stores the result in slot 0 (0 when it failed)
func factoryCode(childInit []byte) []byte {
	a := vh.NewAsm().MStoreBytes(0, childInit)
	a.PushU(1).PushU(uint64(len(childInit))).PushU(0).PushU(0).Op(vm.CREATE2)
	a.PushU(0).Op(vm.SSTORE, vm.STOP)
	return a.Bytes()
}

// codelessInit: stores two slots and returns empty code: an account with storage but no code
func codelessInit(v uint64) []byte {
	return vh.NewAsm().SStore(3, v).SStore(4, 0).SStore(5, v+1).PushU(0).PushU(0).Op(vm.RETURN).Bytes()
}

// ---- history ---------------------------------------------------------------------------

func (h *hist) play(blocks int) {
	r := h.r
	w := h.w
	if h.hugeBaseFee {
		for b := 0; b < 2+r.Intn(4); b++ {
			if br := h.block(nil); br.Err != nil {
				return
			}
		}
		h.run.Count("round_trips_with_a_base_fee_above_2^64", 1)
		h.roundTrip("end-huge-base-fee")
		return
	}
	e0 := w.EOAs[0]
	w.DeployGenerated(8, nil)
	// hand-written contracts by EOA 0 (create addresses from its nonce)
	n0 := h.c.Nonce(e0.Addr)
	childInit := initStoring(0x1234, childRuntime())
	var txs [][]byte
	for k, code := range [][]byte{vh.Deployer(slotStoreCode()), vh.Deployer(burnerCode()), vh.Deployer(factoryCode(childInit)), codelessInit(uint64(10 + r.Intn(90)))} {
		pl := w.PlanEth(e0, nil, nil, 1_500_000, code, "ok", nil)
		txs = append(txs, pl.Bytes)
		addr := crypto.CreateAddress(e0.Addr, n0+uint64(k))
		switch k {
		case 0:
			h.storeC = addr
		case 1:
			h.burner = addr
		case 2:
			h.factory = addr
		}
	}
	h.child = crypto.CreateAddress2(h.factory, common.BigToHash(big.NewInt(1)), crypto.Keccak256(childInit))
	// contracts whose runtime code starts with bytes below 0x10 (STOP-prefixed data contracts, ADD, MUL ...): the hex text of
	// their code starts with '0' characters
	for _, rt := range [][]byte{{0x00, 0xde, 0xad, 0xbe, 0xef}, {0x00, 0x00, 0x01, 0x02}, {0x01}, {0x0f, 0x00, 0x10}} {
		txs = append(txs, w.PlanEth(w.EOAs[1], nil, nil, 300_000, vh.Deployer(rt), "ok", nil).Bytes)
		h.run.Count("contracts_whose_code_starts_with_a_byte_below_0x10", 1)
	}
	for k, d := range h.edgeDeployers {
		txs = append(txs, w.PlanEth(d, nil, nil, 1_500_000, initStoring(uint64(0x70+k), childRuntime()), "ok", nil).Bytes)
	}
	// first dynamic ERC-20 precompile
	txs = append(txs, h.deployErc20Tx(h.extraDenoms[0]))
	h.block(txs)
	midAt := -1
	if h.i%2 == 1 {
		midAt = 14 + r.Intn(10)
	}
	govAt := 18 + r.Intn(8)
	for b := int(h.c.Height); b < blocks; b++ {
		h.refreshErc20s()
		var txs [][]byte
		// calls to generated contracts
		for k := r.Range(0, 3); k > 0; k-- {
			s := vh.Pick(r, w.EOAs[1:])
			ct := vh.Pick(r, w.Contracts)
			to := ct.Addr
			gas := uint64(vh.Pick(r, []int{60_000, 200_000, 1_000_000}))
			txs = append(txs, w.PlanEth(s, &to, nil, gas, r.Bytes(vh.Pick(r, []int{0, 4, 36, 100})), "ok", nil).Bytes)
		}
		// slot store: set / overwrite / zero
		for k := r.Range(0, 2); k > 0; k-- {
			// small slots with small values, or full-width random slots (from a pool of 6, so that
			// they get overwritten and zeroed too) with full-width random values
			slot, val := vh.WordU(uint64(r.Intn(12))), vh.WordU(0)
			if r.Chance(1, 3) {
				slot = h.wideSlots[r.Intn(len(h.wideSlots))]
				if r.Chance(3, 4) {
					val = r.Bytes(32)
					if r.Chance(1, 4) {
						val[0] = 0xff // high bit set
					}
					if r.Chance(1, 4) {
						copy(val, make([]byte, 20)) // leading zero bytes
					}
				}
				h.run.Count("wide_slot_writes", 1)
			} else if r.Chance(2, 3) {
				val = vh.WordU(1 + r.U64()%1_000_000)
			}
			to := h.storeC
			txs = append(txs, w.PlanEth(e0, &to, nil, 100_000, append(append([]byte{}, slot...), val...), "ok", nil).Bytes)
		}
		// factory life cycle: create -> destroy -> re-create
		if r.Chance(1, 3) {
			if h.childAlive && r.Chance(1, 2) {
				to := h.child
				txs = append(txs, w.PlanEth(e0, &to, nil, 100_000, []byte{1}, "ok", nil).Bytes)
				h.childAlive = false
				h.run.Count("child_destroyed", 1)
			} else if h.childAlive {
				to := h.child
				txs = append(txs, w.PlanEth(e0, &to, nil, 100_000, nil, "ok", nil).Bytes)
			} else {
				to := h.factory
				txs = append(txs, w.PlanEth(e0, &to, nil, 400_000, nil, "ok", nil).Bytes)
				h.childAlive = true
				h.run.Count("child_created", 1)
			}
		}
		// another code-less account with storage
		if r.Chance(1, 10) {
			txs = append(txs, w.PlanEth(e0, nil, nil, 300_000, codelessInit(uint64(100+r.Intn(900))), "ok", nil).Bytes)
		}
		// block filling (finite block gas): two or three all-gas burners
		if h.finiteGas && r.Chance(1, 3) {
			for k := r.Range(2, 3); k > 0; k-- {
				to := h.burner
				s := vh.Pick(r, w.EOAs[1:])
				txs = append(txs, w.PlanEth(s, &to, nil, uint64(h.cfg.MaxGas/4), nil, "ok", nil).Bytes)
			}
		}
		// second dynamic ERC-20
		if b == 9 {
			txs = append(txs, h.deployErc20Tx(h.extraDenoms[1]))
		}
		if b == 27 && !h.native { // dynamic deployment for the native denomination (no genesis flag)
			txs = append(txs, h.deployErc20Tx(vh.Denom))
		}
		// approvals and transfers through the precompiles
		for k := r.Range(0, 2); k > 0 && len(h.erc20s) > 0; k-- {
			token := vh.Pick(r, h.erc20s)
			owner := vh.Pick(r, h.holders)
			spender := vh.Pick(r, append(append([]*vh.Acct{}, h.holders...), w.EOAs[2])).Addr
			var amt *big.Int
			switch r.Intn(4) {
			case 0:
				amt = new(big.Int)
			case 1:
				amt = new(big.Int).Sub(new(big.Int).Lsh(big.NewInt(1), 256), big.NewInt(1))
			default:
				amt = big.NewInt(int64(1 + r.Intn(100000)))
			}
			data, err := cpcabi.Erc20CpcInfo.ABI.Pack("approve", spender, amt)
			if err != nil {
				panic(err)
			}
			if r.Chance(1, 5) {
				data, _ = cpcabi.Erc20CpcInfo.ABI.Pack("transfer", spender, big.NewInt(int64(1+r.Intn(1000))))
			}
			to := token
			txs = append(txs, h.ethFrom(owner, &to, 300_000, data))
		}
		// ownership proofs
		if b == 6 || b == 16 || b == 30 {
			idx := map[int]int{6: 0, 16: 1, 30: 2}[b]
			txs = append(txs, h.proofTx(h.proven[idx]))
		}
		// governance: evm + fee-market + cpc params in one proposal
		if b == govAt {
			gtxs := h.govParamsTxs()
			txs = append(txs, gtxs...)
		}
		h.block(txs)
		h.trackChild()
		if b == govAt+1 {
			h.checkGovApplied()
		}
		if int(h.c.Height) == midAt {
			h.roundTrip("mid-history")
		}
	}
	h.refreshErc20s()
	h.roundTrip("end-of-history")
}

func (h *hist) refreshErc20s() {
	h.erc20s = h.erc20s[:0]
	for _, m := range h.c.App.CPCKeeper.GetAllCustomPrecompiledContractsMeta(h.c.QueryCtx()) {
		if m.CustomPrecompiledType == cpctypes.CpcTypeErc20 {
			h.erc20s = append(h.erc20s, common.BytesToAddress(m.Address))
		}
	}
}

func (h *hist) deployErc20Tx(denom string) []byte {
	seq := h.seqs.Next(h.dep.Addr)
	name := "tok" + strings.ToLower(hex.EncodeToString(h.r.Bytes(3)))
	msg := &cpctypes.MsgDeployErc20ContractRequest{Authority: h.dep.Bech32(), Name: name, Symbol: strings.ToUpper(name[:5]), Decimals: 6, MinDenom: denom}
	return h.c.CosmosTx(h.dep, []sdk.Msg{msg}, &vh.CosmosOpts{Gas: 1_000_000, Seq: &seq})
}

func (h *hist) proofTx(acc *vh.Acct) []byte {
	sig, err := crypto.Sign(crypto.Keccak256([]byte(vauthtypes.MessageToSign)), acc.Key)
	if err != nil {
		panic(err)
	}
	sub := h.holders[0]
	seq := h.seqs.Next(sub.Addr)
	msg := &vauthtypes.MsgSubmitProofExternalOwnedAccount{Submitter: sub.Bech32(), Account: acc.Bech32(), Signature: "0x" + hex.EncodeToString(sig)}
	return h.c.CosmosTx(sub, []sdk.Msg{msg}, &vh.CosmosOpts{Gas: 1_000_000, Seq: &seq})
}

func (h *hist) govParamsTxs() [][]byte {
	ctx := h.c.QueryCtx()
	ep := h.c.App.EvmKeeper.GetParams(ctx)
	ep.ExtraEIPs = append(append([]int64{}, ep.ExtraEIPs...), 1344)
	if h.i%3 == 2 { // governance switches every extra EIP off: the empty list is a value of its own, not "use the defaults"
		ep.ExtraEIPs = []int64{}
		h.govNoExtraEIPs = true
	}
	fp := h.c.App.FeeMarketKeeper.GetParams(ctx)
	// the new minimum gas price has a fractional part and lies just below the base fee in force, so that the base fee
	// decays onto its floor (the integer part) within a block or two and is exported from there
	h.govMinGas = sdkmath.LegacyNewDecFromBigInt(new(big.Int).Div(new(big.Int).Mul(h.c.BaseFee(), big.NewInt(9)), big.NewInt(10))).Add(sdkmath.LegacyMustNewDecFromStr("0.5"))
	if h.r.Chance(1, 4) {
		h.govMinGas = sdkmath.LegacyNewDec(int64(3 + h.r.Intn(5000)))
	}
	fp.MinGasPrice = h.govMinGas
	cp := h.c.App.CPCKeeper.GetParams(ctx)
	cp.WhitelistedDeployers = append(append([]string{}, cp.WhitelistedDeployers...), h.holders[1].Bech32())
	gov := vh.GovAddr.String()
	msgs := []sdk.Msg{&evmtypes.MsgUpdateParams{Authority: gov, Params: ep}, &feemarkettypes.MsgUpdateParams{Authority: gov, Params: fp},
		&cpctypes.MsgUpdateParams{Authority: gov, NewParams: cp}}
	txs, _, err := h.c.GovProposalTxs(h.proposer, msgs, h.seqs, "params")
	if err != nil {
		panic(err)
	}
	return txs
}

func (h *hist) checkGovApplied() {
	ctx := h.c.QueryCtx()
	evmOK, cpcOK := false, false
	for _, e := range h.c.App.EvmKeeper.GetParams(ctx).ExtraEIPs {
		if e == 1344 {
			evmOK = true
		}
	}
	if h.govNoExtraEIPs {
		evmOK = len(h.c.App.EvmKeeper.GetParams(ctx).ExtraEIPs) == 0
		if evmOK {
			h.run.Count("hist_gov_switched_all_extra_eips_off", 1)
		}
	}
	for _, d := range h.c.App.CPCKeeper.GetParams(ctx).WhitelistedDeployers {
		if d == h.holders[1].Bech32() {
			cpcOK = true
		}
	}
	feeOK := h.c.App.FeeMarketKeeper.GetParams(ctx).MinGasPrice.Equal(h.govMinGas)
	if evmOK && cpcOK && feeOK {
		h.govDone = true
		h.run.Count("hist_gov_params_changed", 1)
	}
}

// trackChild follows the factory child through create / self-destruct / re-create on the real state.
func (h *hist) trackChild() {
	ctx := h.c.QueryCtx()
	ch := h.c.App.EvmKeeper.GetCodeHash(ctx, h.child.Bytes())
	present := ch != (common.Hash{}) && ch != emptyCodeHash
	if h.childPresent && !present {
		h.destroyCount++
	}
	if !h.childPresent && present && h.destroyCount > 0 {
		h.recreated = true
	}
	h.childPresent, h.childAlive = present, present
}

// producedBy tells, per kind of item, which part of the history creates it (for witnesses).
var producedBy = map[string]string{
	"storage-of-codeless-account": "create transaction whose init code is SSTORE(3,v) SSTORE(4,0) SSTORE(5,v+1) RETURN(0,0): the new account keeps nonce 1 and its storage but has no code, so x/evm keeps no code-hash entry for it",
	"erc20-precompile-dynamic":    "MsgDeployErc20ContractRequest signed by the whitelisted deployer for an extra bank denomination held by genesis accounts",
	"erc20-precompile-native":     "cpc genesis flag deploy_erc20_native = true of the original chain",
	"erc20-allowance":             "Ethereum transaction of a token holder calling approve(spender, amount) on an ERC-20 custom precompile",
	"vauth-proof":                 "MsgSubmitProofExternalOwnedAccount{submitter, account, signature = sign(keccak256(\"vauth\")) by the account's key}",
	"contract-storage":            "SSTORE executed by generated / hand-written contracts",
	"contract-code":               "create transactions, CREATE / CREATE2 in generated contracts and the factory",
	"base-fee":                    "fee-market EndBlock after blocks with varying gas usage",
}
