package c18

import (
	"bytes"
	"encoding/hex"
	"encoding/json"
	"fmt"
	"math/big"
	"reflect"
	"sort"
	"strings"

	sdk "github.com/cosmos/cosmos-sdk/types"
	"github.com/ethereum/go-ethereum/common"
	"github.com/ethereum/go-ethereum/crypto"

	cpctypes "github.com/EscanBE/evermint/v12/x/cpc/types"
	vauthtypes "github.com/EscanBE/evermint/v12/x/vauth/types"

	"verifharness/vh"
)

// view is the observable state of the four custom modules, decoded from the raw stores by
// the layout given in the property's anchors (x/evm/types/key.go, x/cpc/types/keys.go,
// x/vauth/types/keys.go) plus the keepers' params queries.
type view struct {
	CodeHash                        map[common.Address]string            // 0x04|addr
	Code                            map[common.Address]string            // code found under the account's code hash (hex)
	Storage                         map[common.Address]map[string]string // non-zero slots only
	ZeroVals                        int                                  // stored all-zero values
	ChainID                         string
	EvmParams, FeeParams, CpcParams string // canonical JSON
	BaseFee                         string
	MinGas                          string
	Records                         map[common.Address]cpcRecord
	Index                           map[string]string // denom -> address hex
	Allow                           map[string]string // owner|spender -> amount
	Proofs                          map[string]string // account (hex) -> proof bytes hex
	BlockHashes                     int
	OrphanCode                      int
}

type cpcRecord struct {
	Raw   string
	Type  uint32
	Name  string
	Typed string
	Denom string
}

var emptyCodeHash = crypto.Keccak256Hash(nil)

func canon(v any) string {
	b, err := json.Marshal(v)
	if err != nil {
		return "unmarshalable: " + err.Error()
	}
	var x any
	if json.Unmarshal(b, &x) != nil {
		return string(b)
	}
	b, _ = json.Marshal(x) // maps are written with sorted keys
	return string(b)
}

func takeView(c *vh.Chain) *view {
	ctx := c.QueryCtx()
	v := &view{CodeHash: map[common.Address]string{}, Code: map[common.Address]string{}, Storage: map[common.Address]map[string]string{},
		Records: map[common.Address]cpcRecord{}, Index: map[string]string{}, Allow: map[string]string{}, Proofs: map[string]string{}}
	d := c.DumpStores(ctx, "evm", "cpc", "vauth")
	codeByHash := map[string]string{}
	usedHash := map[string]bool{}
	for k, val := range d {
		i := strings.IndexByte(k, 0)
		store, key := k[:i], []byte(k[i+1:])
		if len(key) == 0 {
			continue
		}
		switch store {
		case "evm":
			switch key[0] {
			case 1:
				codeByHash[string(key[1:])] = val
			case 2:
				if len(key) != 53 {
					continue
				}
				a := common.BytesToAddress(key[1:21])
				if new(big.Int).SetBytes([]byte(val)).Sign() == 0 {
					v.ZeroVals++
					continue
				}
				if v.Storage[a] == nil {
					v.Storage[a] = map[string]string{}
				}
				v.Storage[a][hex.EncodeToString(key[21:])] = hex.EncodeToString(common.BytesToHash([]byte(val)).Bytes())
			case 4:
				v.CodeHash[common.BytesToAddress(key[1:])] = hex.EncodeToString([]byte(val))
			case 5:
				v.BlockHashes++
			case 6:
				v.ChainID = hex.EncodeToString([]byte(val))
			}
		case "cpc":
			switch key[0] {
			case 2:
				rec := cpcRecord{Raw: hex.EncodeToString([]byte(val))}
				var m cpctypes.CustomPrecompiledContractMeta
				if m.Unmarshal([]byte(val)) == nil {
					rec.Type, rec.Name, rec.Typed = m.CustomPrecompiledType, m.Name, m.TypedMeta
					var tm struct {
						MinDenom string `json:"min_denom"`
					}
					_ = json.Unmarshal([]byte(m.TypedMeta), &tm)
					rec.Denom = tm.MinDenom
				}
				v.Records[common.BytesToAddress(key[1:])] = rec
			case 3:
				v.Index[string(key[1:])] = hex.EncodeToString([]byte(val))
			case 4:
				if len(key) == 41 {
					v.Allow[hex.EncodeToString(key[1:21])+"|"+hex.EncodeToString(key[21:])] = new(big.Int).SetBytes([]byte(val)).String()
				}
			}
		case "vauth":
			if key[0] == 1 {
				v.Proofs[hex.EncodeToString(key[1:])] = hex.EncodeToString([]byte(val))
			}
		}
	}
	for a, hsh := range v.CodeHash {
		raw, _ := hex.DecodeString(hsh)
		usedHash[string(raw)] = true
		v.Code[a] = hex.EncodeToString([]byte(codeByHash[string(raw)]))
	}
	for hsh := range codeByHash {
		if !usedHash[hsh] {
			v.OrphanCode++
		}
	}
	v.EvmParams = canon(c.App.EvmKeeper.GetParams(ctx))
	fp := c.App.FeeMarketKeeper.GetParams(ctx)
	v.FeeParams = canon(fp)
	v.BaseFee = c.App.FeeMarketKeeper.GetBaseFee(ctx).String()
	v.MinGas = fp.MinGasPrice.String()
	v.CpcParams = canon(c.App.CPCKeeper.GetParams(ctx))
	return v
}

func sortedAddrs[T any](m map[common.Address]T) []common.Address {
	out := make([]common.Address, 0, len(m))
	for a := range m {
		out = append(out, a)
	}
	sort.Slice(out, func(i, j int) bool { return bytes.Compare(out[i][:], out[j][:]) < 0 })
	return out
}

func sortedKeys[T any](m map[string]T) []string {
	out := make([]string, 0, len(m))
	for k := range m {
		out = append(out, k)
	}
	sort.Strings(out)
	return out
}

// roundTrip: export A, import into a fresh app B, run the same empty block on both, compare.
func (h *hist) roundTrip(when string) {
	A := h.c
	h.roundTrips++
	exp1, err := A.App.ExportAppStateAndValidators(false, nil, nil)
	if err != nil {
		h.violation("export-failed", map[string]any{"when": when, "err": err.Error()})
		return
	}
	pre := takeView(A)
	h.inventory(pre, when)
	if mod, err := A.ValidateExportedGenesis(exp1.AppState, "evm", "feemarket", "cpc", "vauth"); err != nil {
		h.violation("exported-genesis-fails-validation:"+mod, map[string]any{"when": when, "module": mod, "err": clip(err.Error(), 800)})
	}
	prevTime := A.Time
	B, ierr, stack := vh.ImportChain(h.cfg, exp1, prevTime)
	if B != nil {
		defer B.Cleanup()
	}
	if ierr != nil {
		h.violation("import-failed:"+errClass(ierr.Error()), map[string]any{"when": when, "err": clip(ierr.Error(), 1500), "stack": clip(stack, 4000),
			"exported_height": exp1.Height, "procedure": "RequestInitChain{genesis time, chain id, initial height = exported height, exported consensus params / validators / app state} on a fresh app, then one empty block"})
		return
	}
	// the base fee in force for the first block of the re-imported chain (as InitChain left it) against the base fee
	// the exporting chain has in force for that very block
	if B.InitBaseFee != nil {
		h.run.Count("base_fee_in_force_after_init_compared", 1)
		if B.InitBaseFee.String() != pre.BaseFee {
			h.violation("changed-on-roundtrip:base-fee-in-force-for-the-first-block", map[string]any{"when": when, "exported_height": exp1.Height,
				"base_fee_in_force_on_the_exporting_chain": pre.BaseFee, "base_fee_in_force_after_InitChain(export)": B.InitBaseFee.String(), "fee_params_exported": pre.FeeParams})
		}
	}
	// the same empty block on the exporting app
	if br := h.block(nil); br.Err != nil {
		return
	}
	if A.Height != B.Height || !A.Time.Equal(B.Time) {
		h.violation("harness-height-mismatch", map[string]any{"a": A.Height, "b": B.Height})
		return
	}
	va, vb := takeView(A), takeView(B)
	h.compare(va, vb, when, exp1.Height)
	// second export against the export of the original at the same height
	exp2, err := B.App.ExportAppStateAndValidators(false, nil, nil)
	if err != nil {
		h.violation("export-of-reimported-app-failed", map[string]any{"when": when, "err": err.Error()})
		return
	}
	expA, err := A.App.ExportAppStateAndValidators(false, nil, nil)
	if err != nil {
		h.violation("export-failed", map[string]any{"when": when, "err": err.Error()})
		return
	}
	var g1, g2, gA map[string]json.RawMessage
	_ = json.Unmarshal(exp1.AppState, &g1)
	_ = json.Unmarshal(exp2.AppState, &g2)
	_ = json.Unmarshal(expA.AppState, &gA)
	for _, sec := range []string{"evm", "feemarket", "cpc", "vauth"} {
		var x2, xA, x1 any
		_ = json.Unmarshal(g2[sec], &x2)
		_ = json.Unmarshal(gA[sec], &xA)
		_ = json.Unmarshal(g1[sec], &x1)
		h.run.Count("export_sections_compared", 1)
		if reflect.DeepEqual(x1, x2) {
			h.run.Count("second_export_section_identical_to_first", 1)
		}
		if !reflect.DeepEqual(x2, xA) {
			var diffs []string
			jsonDiff("", xA, x2, &diffs)
			h.violation("second-export-differs:"+sec, map[string]any{"when": when, "section": sec, "exported_height": exp1.Height,
				"differences(original-app-export -> reimported-app-export)": diffs, "count": len(diffs)})
		}
	}
	if exp2.Height != expA.Height {
		h.violation("second-export-differs:height", map[string]any{"when": when, "a": expA.Height, "b": exp2.Height})
	}
	h.run.Count("round_trips", 1)
	h.run.Eval(1)
	h.run.Count("round_trips_"+when, 1)
	if len(h.rec.samples) < 1 {
		h.rec.samples = append(h.rec.samples, map[string]any{"history": h.label, "when": when, "exported_height": exp1.Height, "export_bytes": len(exp1.AppState),
			"contracts": len(pre.CodeHash), "storage_accounts": len(pre.Storage), "precompile_records": len(pre.Records), "allowances": len(pre.Allow), "proofs": len(pre.Proofs),
			"base_fee": pre.BaseFee, "fee_params": pre.FeeParams})
	}
}

func errClass(e string) string {
	switch {
	case strings.Contains(e, "account not found"):
		return "evm-account-not-found"
	case strings.Contains(e, "must be *types.BaseAccount") || strings.Contains(e, "must be"):
		return "evm-account-type"
	case strings.Contains(e, "invariant"):
		return "invariant-broken"
	case strings.Contains(e, "validator set") || strings.Contains(e, "validators"):
		return "validator-set"
	case strings.Contains(e, "Custom Precompiled"):
		return "cpc-deployment"
	case strings.Contains(e, "invalid height"):
		return "height"
	}
	return "other"
}

// inventory counts what the exported state contains (evidence and non-triviality).
func (h *hist) inventory(v *view, when string) {
	for a := range v.CodeHash {
		if a[0] == 0xff || a[0] == 0x00 {
			h.run.Count("state_contracts_at_edge_addresses", 1)
		}
	}
	run := h.run
	variant := fmt.Sprintf("native=%v,staking=%v,finite=%v", h.native, h.staking, h.finiteGas)
	nt := func(kind string) { run.Nontrivial(kind + "|" + variant) }
	run.Count("state_contracts_with_code", len(v.CodeHash))
	run.Count("state_zero_valued_slots", v.ZeroVals)
	if v.ZeroVals > 0 {
		nt("zero-valued-stored-slot")
	}
	slots := 0
	for a, st := range v.Storage {
		slots += len(st)
		if _, ok := v.CodeHash[a]; !ok {
			run.Count("state_codeless_storage_accounts", 1)
			nt("storage-without-code")
			// where does it come from: an account created by init code that returned no code
			// (account record with nonce >= 1) or leftovers of an account that no longer exists?
			if acc := h.c.App.AccountKeeper.GetAccount(h.c.QueryCtx(), a.Bytes()); acc != nil && acc.GetSequence() >= 1 {
				run.Count("state_codeless_storage_accounts_created_by_init_code", 1)
			} else {
				run.Count("state_codeless_storage_accounts_without_live_account", 1)
				nt("storage-left-behind-by-removed-account")
			}
		}
	}
	run.Count("state_storage_slots_nonzero", slots)
	if slots > 0 {
		nt("contract-storage")
	}
	if len(v.CodeHash) > 0 {
		nt("contract-code")
	}
	if _, ok := v.CodeHash[h.child]; ok && h.recreated {
		nt("re-created-contract-present")
		run.Count("hist_recreated_contract", 1)
	}
	for a, r := range v.Records {
		switch {
		case r.Type == cpctypes.CpcTypeErc20 && h.native && r.Denom == vh.Denom:
			run.Count("state_erc20_native", 1)
			nt("erc20-precompile-native")
		case r.Type == cpctypes.CpcTypeErc20:
			run.Count("state_erc20_dynamic", 1)
			nt("erc20-precompile-dynamic")
		case r.Type == cpctypes.CpcTypeStaking:
			run.Count("state_staking_precompile", 1)
			nt("staking-precompile")
		case r.Type == cpctypes.CpcTypeBech32:
			run.Count("state_bech32_precompile", 1)
			nt("bech32-precompile")
		}
		_ = a
	}
	run.Count("state_allowances", len(v.Allow))
	if len(v.Allow) > 0 {
		nt("erc20-allowance")
	}
	run.Count("state_vauth_proofs", len(v.Proofs))
	if len(v.Proofs) > 0 {
		nt("vauth-proof")
	}
	if v.BaseFee != h.cfg.BaseFee.String() {
		run.Count("state_base_fee_moved", 1)
		nt("base-fee-moved")
	}
	if h.govDone {
		nt("governance-changed-params")
	}
	run.Count("state_block_hashes_not_compared", v.BlockHashes)
	run.Count("state_orphan_code_blobs_not_compared", v.OrphanCode)
	nt("round-trip:" + when)
}

// compare reports every item of A that B lacks or holds differently, classified by kind.
func (h *hist) compare(a, b *view, when string, height int64) {
	run := h.run
	base := func(m map[string]any) map[string]any {
		m["when"], m["exported_height"] = when, height
		return m
	}
	lost := func(kind string, m map[string]any) { h.violation("lost-on-roundtrip:"+kind, base(m)) }
	changed := func(kind string, m map[string]any) { h.violation("changed-on-roundtrip:"+kind, base(m)) }
	gained := func(kind string, m map[string]any) { h.violation("gained-on-roundtrip:"+kind, base(m)) }

	// ---- evm: code, code hash, storage
	addrs := map[common.Address]bool{}
	for x := range a.CodeHash {
		addrs[x] = true
	}
	for x := range b.CodeHash {
		addrs[x] = true
	}
	for x := range a.Storage {
		addrs[x] = true
	}
	for x := range b.Storage {
		addrs[x] = true
	}
	for _, x := range sortedAddrs(addrs) {
		ha, inA := a.CodeHash[x]
		hb, inB := b.CodeHash[x]
		if inA {
			run.Count("cmp_contracts_with_code", 1)
			run.Eval(1)
		}
		switch {
		case inA && !inB:
			lost("contract-code", map[string]any{"address": x.Hex(), "code_hash": ha, "code_bytes": len(a.Code[x]) / 2})
		case !inA && inB:
			gained("contract-code", map[string]any{"address": x.Hex(), "code_hash": hb})
		case inA && ha != hb:
			changed("contract-code-hash", map[string]any{"address": x.Hex(), "before": ha, "after": hb})
		case inA && a.Code[x] != b.Code[x]:
			if b.Code[x] == "" {
				lost("contract-code", map[string]any{"address": x.Hex(), "code_hash": ha, "note": "code hash present, code blob missing"})
			} else {
				changed("contract-code", map[string]any{"address": x.Hex(), "before": clip(a.Code[x], 200), "after": clip(b.Code[x], 200)})
			}
		}
		kind := "contract-storage"
		if !inA {
			kind = "storage-of-codeless-account"
		}
		sa, sb := a.Storage[x], b.Storage[x]
		for _, slot := range sortedKeys(sa) {
			run.Count("cmp_storage_slots_nonzero", 1)
			run.Eval(1)
			vb, ok := sb[slot]
			switch {
			case !ok:
				lost(kind, map[string]any{"address": x.Hex(), "slot": slot, "value": sa[slot], "account_has_code": inA, "slots_of_account": len(sa), "slots_after": len(sb)})
			case vb != sa[slot]:
				changed(kind, map[string]any{"address": x.Hex(), "slot": slot, "before": sa[slot], "after": vb})
			}
		}
		for _, slot := range sortedKeys(sb) {
			if _, ok := sa[slot]; !ok {
				gained(kind, map[string]any{"address": x.Hex(), "slot": slot, "value": sb[slot]})
			}
		}
	}
	if a.ChainID != b.ChainID {
		changed("evm-chain-id", map[string]any{"before": a.ChainID, "after": b.ChainID})
	}
	// ---- params
	run.Count("cmp_params", 3)
	if a.EvmParams != b.EvmParams {
		lost("evm-params", map[string]any{"before": a.EvmParams, "after": b.EvmParams})
	}
	if a.BaseFee != b.BaseFee {
		lost("base-fee", map[string]any{"before": a.BaseFee, "after": b.BaseFee, "genesis_base_fee": h.cfg.BaseFee.String()})
	}
	if a.MinGas != b.MinGas || (a.FeeParams != b.FeeParams && a.BaseFee == b.BaseFee) {
		lost("feemarket-params", map[string]any{"before": a.FeeParams, "after": b.FeeParams})
	}
	if a.CpcParams != b.CpcParams {
		lost("cpc-params", map[string]any{"before": a.CpcParams, "after": b.CpcParams})
	}
	// ---- cpc registry
	recKind := func(r cpcRecord) string {
		switch {
		case r.Type == cpctypes.CpcTypeErc20 && h.native && r.Denom == vh.Denom:
			return "erc20-precompile-native"
		case r.Type == cpctypes.CpcTypeErc20:
			return "erc20-precompile-dynamic"
		case r.Type == cpctypes.CpcTypeStaking:
			return "staking-precompile"
		case r.Type == cpctypes.CpcTypeBech32:
			return "bech32-precompile"
		}
		return "precompile-of-unknown-type"
	}
	lostRec := map[string]bool{}
	for _, x := range sortedAddrs(a.Records) {
		ra := a.Records[x]
		rb, ok := b.Records[x]
		run.Count("cmp_precompile_records", 1)
		run.Eval(1)
		switch {
		case !ok:
			lostRec[strings.ToLower(x.Hex()[2:])] = true
			lost(recKind(ra), map[string]any{"address": x.Hex(), "name": ra.Name, "typed_meta": ra.Typed, "records_before": len(a.Records), "records_after": len(b.Records)})
		case ra.Raw != rb.Raw:
			changed(recKind(ra)+"-metadata", map[string]any{"address": x.Hex(), "before": ra, "after": rb})
		}
	}
	for _, x := range sortedAddrs(b.Records) {
		if _, ok := a.Records[x]; !ok {
			gained(recKind(b.Records[x]), map[string]any{"address": x.Hex(), "record": b.Records[x]})
		}
	}
	for _, d := range sortedKeys(a.Index) {
		vb, ok := b.Index[d]
		switch {
		case !ok && lostRec[a.Index[d]]:
			// the index entry of a lost record goes with the record (already reported)
		case !ok:
			lost("erc20-denom-index", map[string]any{"denom": d, "address": a.Index[d]})
		case vb != a.Index[d]:
			changed("erc20-denom-index", map[string]any{"denom": d, "before": a.Index[d], "after": vb})
		}
	}
	for _, d := range sortedKeys(b.Index) {
		if _, ok := a.Index[d]; !ok {
			gained("erc20-denom-index", map[string]any{"denom": d, "address": b.Index[d]})
		}
	}
	for _, k := range sortedKeys(a.Allow) {
		run.Count("cmp_allowances", 1)
		run.Eval(1)
		vb, ok := b.Allow[k]
		switch {
		case !ok:
			lost("erc20-allowance", map[string]any{"owner|spender": k, "amount": a.Allow[k], "allowances_before": len(a.Allow), "allowances_after": len(b.Allow)})
		case vb != a.Allow[k]:
			changed("erc20-allowance", map[string]any{"owner|spender": k, "before": a.Allow[k], "after": vb})
		}
	}
	for _, k := range sortedKeys(b.Allow) {
		if _, ok := a.Allow[k]; !ok {
			gained("erc20-allowance", map[string]any{"owner|spender": k, "amount": b.Allow[k]})
		}
	}
	// ---- vauth
	for _, k := range sortedKeys(a.Proofs) {
		run.Count("cmp_vauth_proofs", 1)
		run.Eval(1)
		vb, ok := b.Proofs[k]
		var p vauthtypes.ProofExternalOwnedAccount
		raw, _ := hex.DecodeString(a.Proofs[k])
		_ = p.Unmarshal(raw)
		switch {
		case !ok:
			lost("vauth-proof", map[string]any{"account": sdk.AccAddress(common.FromHex(k)).String(), "proof": p, "proofs_before": len(a.Proofs), "proofs_after": len(b.Proofs)})
		case vb != a.Proofs[k]:
			changed("vauth-proof", map[string]any{"account": k})
		}
	}
	for _, k := range sortedKeys(b.Proofs) {
		if _, ok := a.Proofs[k]; !ok {
			gained("vauth-proof", map[string]any{"account": k})
		}
	}
}

// jsonDiff lists paths at which two decoded JSON values differ (first 12).
func jsonDiff(path string, a, b any, out *[]string) {
	if len(*out) >= 12 || reflect.DeepEqual(a, b) {
		return
	}
	switch x := a.(type) {
	case map[string]any:
		y, ok := b.(map[string]any)
		if !ok {
			*out = append(*out, fmt.Sprintf("%s: %s -> %s", path, clip(canon(a), 120), clip(canon(b), 120)))
			return
		}
		keys := map[string]bool{}
		for k := range x {
			keys[k] = true
		}
		for k := range y {
			keys[k] = true
		}
		for _, k := range sortedKeys(keys) {
			jsonDiff(path+"/"+k, x[k], y[k], out)
		}
	case []any:
		y, ok := b.([]any)
		if !ok || len(x) != len(y) {
			*out = append(*out, fmt.Sprintf("%s: array of %d -> %s", path, len(x), clip(canon(b), 160)))
			return
		}
		for i := range x {
			jsonDiff(fmt.Sprintf("%s[%d]", path, i), x[i], y[i], out)
		}
	default:
		*out = append(*out, fmt.Sprintf("%s: %s -> %s", path, clip(canon(a), 120), clip(canon(b), 120)))
	}
}
