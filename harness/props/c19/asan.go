package c19

import (
	"encoding/json"
	"fmt"
	"os"
	"os/exec"
	"path/filepath"
	"strings"

	"github.com/ethereum/go-ethereum/crypto"

	"github.com/EscanBE/evermint/v12/crypto/ethsecp256k1"

	"verifharness/vh"
)

// The address-sanitizer leg. The signature path of ethsecp256k1 ends in go-ethereum's cgo binding
// of libsecp256k1 (Sign, RecoverPubkey / Ecrecover, VerifySignature, DecompressPubkey). A child
// process built with `go build -asan` runs the key/signature workload (checkKey) plus hostile-length
// and garbage inputs through exactly those entry points; the parent treats an AddressSanitizer
// report (process-fatal, recover() never sees it) as a violation. Each input is announced on disk
// before the call so that the report can be attributed.

const asanEnv = "C19_ASAN_LEG"

// AsanChildMain runs the leg in the -asan binary. Returns the process exit code.
func AsanChildMain() int {
	run := vh.Start("C19")
	vh.InitSDK()
	c := vh.NewChain(vh.Config{Seed: run.Seed, NumVals: 1})
	defer c.Cleanup()
	ke := &keyEnv{run: run, enc: c.Enc}
	cur := os.Getenv("C19_ASAN_CUR")
	n := run.N(300, 2500)
	for i := 0; i < n; i++ {
		ke.checkKey(i)
	}
	hostile := 0
	for i := 0; i < n*4; i++ {
		r := run.RNG("asan-hostile", i)
		priv := genPriv(r)
		pub := priv.PubKey().(*ethsecp256k1.PubKey)
		msg := r.Bytes(r.Intn(100))
		hash := r.Bytes(vh.Pick(r, []int{0, 1, 31, 32, 33, 64}))
		sig := r.Bytes(vh.Pick(r, []int{0, 1, 63, 64, 65, 66, 128}))
		key := r.Bytes(vh.Pick(r, []int{0, 1, 32, 33, 34, 64, 65}))
		if cur != "" {
			_ = os.WriteFile(cur, []byte(fmt.Sprintf("i=%d msg=%x hash=%x sig=%x key=%x", i, msg, hash, sig, key)), 0o644)
		}
		func() {
			defer func() { _ = recover() }() // a Go-level panic on malformed input is not this leg's subject
			_ = pub.VerifySignature(msg, sig)
			_ = (&ethsecp256k1.PubKey{Key: key}).VerifySignature(msg, sig)
			_ = (&ethsecp256k1.PubKey{Key: key}).Address()
			_, _ = crypto.Ecrecover(hash, sig)
			_, _ = crypto.SigToPub(hash, sig)
			_ = crypto.VerifySignature(key, hash, sig)
			_, _ = crypto.DecompressPubkey(key)
			_, _ = (&ethsecp256k1.PrivKey{Key: key}).Sign(hash)
		}()
		hostile++
	}
	out := map[string]any{"keys_checked": n, "hostile_inputs": hostile, "violations": run.ViolationCount()}
	b, _ := json.Marshal(out)
	if p := os.Getenv("C19_ASAN_OUT"); p != "" {
		_ = os.WriteFile(p, b, 0o644)
	}
	if run.ViolationCount() > 0 {
		return 1
	}
	return 0
}

// asanLeg spawns the child when ./check built the asan variant (thorough tier).
func asanLeg(run *vh.Run) {
	bin := filepath.Join(os.Getenv("VERIF_BIN_DIR"), "asan", "c19")
	if _, err := os.Stat(bin); err != nil {
		run.Assumptions = append(run.Assumptions, "the cgo secp256k1 code was not run under the address sanitizer in this tier (the -asan leg runs in the thorough tier)")
		return
	}
	scratch := os.Getenv("VERIF_SCRATCH")
	if scratch == "" {
		scratch = filepath.Join(vh.Root(), ".build", "scratch")
	}
	_ = os.MkdirAll(scratch, 0o755)
	outP, curP, logP := filepath.Join(scratch, "c19-asan.json"), filepath.Join(scratch, "c19-asan.cur"), filepath.Join(scratch, "c19-asan.log")
	cmd := exec.Command(bin, run.Tier)
	cmd.Env = append(os.Environ(), asanEnv+"=1", "C19_ASAN_OUT="+outP, "C19_ASAN_CUR="+curP, "VERIF_OUT_DIR="+scratch,
		"ASAN_OPTIONS=halt_on_error=1:abort_on_error=0:detect_leaks=0:exitcode=99")
	lf, _ := os.Create(logP)
	cmd.Stdout, cmd.Stderr = lf, lf
	err := cmd.Run()
	lf.Close()
	logB, _ := os.ReadFile(logP)
	log := string(logB)
	if strings.Contains(log, "AddressSanitizer") {
		curB, _ := os.ReadFile(curP)
		i := strings.Index(log, "==ERROR")
		if i < 0 {
			i = strings.Index(log, "AddressSanitizer")
		}
		rep := log[i:]
		if len(rep) > 6000 {
			rep = rep[:6000]
		}
		run.Violation("asan-report:secp256k1-path", "asan", map[string]any{"report": rep, "last_announced_input": string(curB)})
		return
	}
	var res struct {
		Keys    int `json:"keys_checked"`
		Hostile int `json:"hostile_inputs"`
		Viol    int `json:"violations"`
	}
	b, rerr := os.ReadFile(outP)
	if rerr != nil || json.Unmarshal(b, &res) != nil {
		run.Inconclusive(fmt.Sprintf("asan child gave no result (%v): %s", err, tail(log, 500)))
		return
	}
	if res.Viol > 0 {
		run.Violation("asan-build-disagrees-with-plain-build", "asan", map[string]any{"child_violations": res.Viol, "log_tail": tail(log, 3000)})
	}
	run.Count("asan.keys-checked-under-address-sanitizer", res.Keys)
	run.Count("asan.hostile-inputs-under-address-sanitizer", res.Hostile)
	run.Nontrivial("asan|secp256k1-cgo-path")
}

func tail(s string, n int) string {
	if len(s) > n {
		return s[len(s)-n:]
	}
	return s
}
