// Package c19 decides property C19: keys, addresses and signatures bind to exactly one key and one
// message. Everything observed is an execution of the repository's real code (crypto/ethsecp256k1,
// crypto/hd, crypto/codec, ethereum/eip712, x/cpc/eip712, and — for the end-to-end leg — the
// application's ante handler); the oracles are btcec + x/crypto keccak (keys, addresses, ECDSA),
// cosmos-sdk's independent BIP-32 and published BIP-32 / BIP-39 / Ethereum-wallet vectors (HD
// derivation), decode(encode(x)) = x (encodings) and hash(A) != hash(B) / verify(B, sig(A)) = false
// for single-field perturbations B of A (EIP-712 renderings).
package c19

import (
	"runtime"
	"sort"
	"sync"
	"sync/atomic"

	"verifharness/vh"
)

func parallel(n int, f func(i int)) {
	w := runtime.NumCPU()
	if w > 16 {
		w = 16
	}
	if w > n {
		w = n
	}
	if w < 1 {
		w = 1
	}
	var next int64 = -1
	var wg sync.WaitGroup
	for k := 0; k < w; k++ {
		wg.Add(1)
		go func() {
			defer wg.Done()
			for {
				i := int(atomic.AddInt64(&next, 1))
				if i >= n {
					return
				}
				f(i)
			}
		}()
	}
	wg.Wait()
}

// viol reports a violation, listing at most a handful of witnesses per signature so that one loud
// defect cannot crowd a second, different one out of the harness's bounded violation list.
var violSeen sync.Map

func viol(run *vh.Run, sig, label string, detail any) {
	c, _ := violSeen.LoadOrStore(sig, new(atomic.Int64))
	if c.(*atomic.Int64).Add(1) > 4 {
		run.Count("further-violations-not-listed:"+sig, 1)
		return
	}
	run.Violation(sig, label, detail)
}

func Run(run *vh.Run) {
	vh.InitSDK()
	// One real application instance: its construction installs the encoding config the EIP-712
	// encoder and the amino sign-bytes use (app.NewEvermint -> eip712.SetEncodingConfig, crypto codec
	// registration), and it is the chain of the end-to-end leg.
	e2eAccts := make([]*vh.Acct, 9)
	var gen []vh.GenAccount
	for i := range e2eAccts {
		e2eAccts[i] = vh.NewAcct(run.RNG("e2e-acct", i))
		gen = append(gen, vh.GenAccount{Addr: e2eAccts[i].Addr, Coins: vh.NativeCoins(1000)})
	}
	c := vh.NewChain(vh.Config{Seed: run.Seed, NumVals: 1, Accounts: gen})
	defer c.Cleanup()

	run.Rule = "Generated from the harness PRNG: secp256k1 scalars (plain, leading-zero bytes, tiny, n-k) and messages of 0..2048 bytes; " +
		"BIP-39 mnemonics of 12/15/18/21/24 words from PRNG entropy, passphrases (empty/ASCII/NFKD-stable Unicode), paths of depth 1..8 with hardened and " +
		"non-hardened components (small, BIP-44, 2^31-1, random) plus paths found by a bounded deterministic search (reference implementation only) whose " +
		"intermediate key has one or two leading zero bytes; single-signer sign documents (amino StdSignBytes, protobuf SignDoc, and the application's own " +
		"amino-JSON sign-mode handler where it renders differently) with 1..3 messages of the listed message kinds and typed field values; staking-precompile typed messages. Every sample gets its positive check and single-field perturbations. " +
		"Non-trivial case keys = distinct (sub-check, perturbation class incl. message type and field, message-length bucket / key shape / path shape and " +
		"leading-zero position) for which the oracle really compared two outcomes (a perturbed document the encoder rejected is counted as rejected, not as compared)."
	run.Assumptions = append(run.Assumptions,
		"secp256k1/ECDSA, Keccak-256, HMAC-SHA512 and PBKDF2 primitives of btcec, x/crypto and the Go standard library are correct (they are the oracle side)",
		"cosmos-sdk crypto/hd (ComputeMastersFromSeed, DerivePrivateKeyForPath) is the BIP-32 reference; it is itself checked here against BIP-32 test vectors 1-4 and BIP-39 TREZOR vectors",
		"negligible-probability events (IL >= n in BIP-32, a random (r,s) being a valid signature, Keccak collisions) do not occur",
		"the recovery byte v and the (r, n-s) twin are not key-or-message binding: measured and reported, never counted as violations; transaction fields the statement does not list by name (fee granter / payer, tip, timeout height, extension options) are judged by its conclusion: a rendering may refuse them but may not drop them",
		"perturbed documents the encoder refuses (extra fields, several signers, unsupported body fields, invalid chain id) have no EIP-712 rendering; for them only 'the signature must not verify' is asserted",
	)
	if u := uncoveredFields(); len(u) > 0 {
		run.Set("message_fields_without_mutator", u)
	} else {
		run.Set("message_fields_without_mutator", []string{})
	}
	var kn []string
	for _, k := range kinds {
		kn = append(kn, k.name)
	}
	run.Set("message_kinds", kn)

	ifaceRegistry = c.Enc.InterfaceRegistry
	runCLIKeyRoundTrip(run, c.Enc)
	runCLIKeysAdd(run, c.Enc)
	ke := &keyEnv{run: run, enc: c.Enc}
	he := &hdEnv{run: run, enc: c.Enc}
	de := &docEnv{run: run, enc: c.Enc, idx: newHashIndex()}

	nKeys := run.N(3000, 150000)
	nHD := run.N(3000, 300000)
	nSearch := run.N(240, 8000)
	nSearch2 := run.N(4, 64)
	nDocs := run.N(1500, 60000)
	nCpc := run.N(1500, 75000)
	nE2E := run.N(48, 1200)

	he.vectors()
	var bg sync.WaitGroup
	bg.Add(1)
	go func() { // the 2^-16 search is few long cases: runs beside the other phases
		defer bg.Done()
		parallel(nSearch2, func(i int) { he.searchedCase(i, true) })
	}()
	parallel(nSearch, func(i int) { he.searchedCase(i, false) })
	parallel(nHD, he.randomCase)
	parallel(nKeys, ke.checkKey)
	cpcIdx := newHashIndex()
	parallel(nCpc, func(i int) { ke.checkCpc(i, cpcIdx) })
	de.probes()
	parallel(nDocs, de.checkDoc)
	runE2E(run, c, e2eAccts, nE2E)
	bg.Wait()
	if run.OnlyCase == "" || run.OnlyCase == "asan" {
		asanLeg(run)
	}

	if run.OnlyCase != "" {
		return
	}
	// ---- floors (expected values at the fixed case counts are >= 2x the floor at every seed)
	q := func(quick, thorough int64) int64 {
		if run.Thorough() {
			return thorough
		}
		return quick
	}
	scale := func(v int64) int64 { return int64(run.N(int(v), int(v))) } // honours VERIF_SCALE during development
	run.Floor("hd derivations equal to the reference", run.Get("hd.matches-reference"), scale(q(3000, 300000)))
	lzNatural := run.Get("hd.class:random:leading-zero-intermediate") + run.Get("hd.class:random:leading-zero-intermediate-before-hardened") +
		run.Get("hd.class:random:leading-zero-intermediate-2bytes") + run.Get("hd.class:random:leading-zero-intermediate-before-hardened-2bytes")
	run.Set("hd_leading_zero_intermediate_natural", lzNatural)
	run.Floor("random derivations with a leading-zero intermediate key", lzNatural, scale(q(15, 1500)))
	lzSearchedBH := run.Get("hd.class:searched:leading-zero-intermediate-before-hardened")
	run.Floor("searched derivations: hardened child of a leading-zero key", lzSearchedBH, scale(q(80, 2600)))
	run.Floor("searched derivations: non-hardened child of a leading-zero key", run.Get("hd.class:searched:leading-zero-intermediate"), scale(q(20, 600)))
	run.Floor("searched derivations: two leading zero bytes", run.Get("hd.class:searched-lz2:leading-zero-intermediate-before-hardened-2bytes")+
		run.Get("hd.class:searched-lz2:leading-zero-intermediate-2bytes"), scale(q(2, 30)))
	run.Floor("published vectors passed", run.Get("hd.vector-ok:bip32-reference")+run.Get("hd.vector-ok:bip39-seed")+run.Get("hd.vector-ok:ethereum-wallet")+run.Get("hd.vector-ok:default-path"), 17+5+12+1)
	run.Floor("keys with leading zero byte(s)", run.Get("key.shape:lz1")+run.Get("key.shape:lz2+"), scale(q(200, 10000)))
	for _, cls := range []string{"msg-bit:rs", "sig-r-bit:rsv", "sig-s-bit:rs", "key-other:rsv", "key-negated:rs"} {
		run.Floor("signature perturbation "+cls, run.Get("sig.rejected:"+cls), scale(q(1400, 70000)))
	}
	run.Floor("one mnemonic derived with two passphrases in a row", run.Get("hd.same-mnemonic-two-passphrases-in-a-row"), scale(q(300, 30000)))
	run.Floor("keys recovered through `keys add --interactive` equal to the reference derivation", run.Get("cli_keys_add_interactive_ok"), scale(q(36, 550)))
	run.Floor("key round trips through the keys export / import commands", run.Get("enc.roundtrip-ok:cli-export-import"), scale(q(60, 1100)))
	run.Floor("encoding round trips", ke.encOK.Load(), scale(q(3000*13/2, 150000*13/2)))
	for _, f := range formats {
		base, grp := q(700, 28000), q(300, 12000)
		if f == fmtAminoTx { // only the documents the handler renders differently from StdSignBytes (about 1 in 13)
			base, grp = q(40, 1600), q(30, 1200)
		}
		run.Floor("base sign documents accepted by the encoder ("+f+")", run.Get("doc.base-accepted:"+f), scale(base))
		for _, g := range []string{"chain_id", "account_number", "sequence", "gas", "memo", "fee_amount", "fee_denom", "msg-field", "msgs"} {
			run.Floor("hash comparisons "+f+":"+g, run.Get("doc.hash-differs:"+f+":"+g), scale(grp))
		}
	}
	run.Floor("cpc typed-message perturbations compared", ke.cpcCompared.Load(), scale(q(3000, 150000)))
	run.Floor("end-to-end: EIP-712-signed transactions accepted", run.Get("e2e.good-accepted"), scale(q(20, 500)))
	run.Floor("end-to-end: tampered transactions refused", run.Get("e2e.tampered-refused"), scale(q(24, 600)))
	// per message type: every kind was compared at least a few times in every tier
	kindsSeen := map[string]bool{}
	de.kindsCompared.Range(func(k, _ any) bool { kindsSeen[k.(string)] = true; return true })
	missing := []string{}
	for _, kk := range kinds {
		if !kindsSeen[kk.name] {
			missing = append(missing, kk.name)
		}
	}
	sort.Strings(missing)
	run.Set("message_kinds_never_compared", missing)
	if scale(100) == 100 {
		run.Floor("message kinds with at least one field-perturbation comparison", int64(len(kindsSeen)), int64(len(kinds)-2))
	}
}
