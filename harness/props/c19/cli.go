package c19

import (
	"bytes"
	"context"
	"encoding/hex"
	"encoding/json"
	"fmt"
	"io"
	"os"
	"strings"

	sdkclient "github.com/cosmos/cosmos-sdk/client"
	sdkhd "github.com/cosmos/cosmos-sdk/crypto/hd"
	"github.com/cosmos/cosmos-sdk/crypto/keyring"
	sdk "github.com/cosmos/cosmos-sdk/types"
	bip39 "github.com/cosmos/go-bip39"
	"github.com/spf13/cobra"

	"github.com/EscanBE/evermint/v12/app/params"
	evclient "github.com/EscanBE/evermint/v12/client"
	"github.com/EscanBE/evermint/v12/crypto/ethsecp256k1"
	evhd "github.com/EscanBE/evermint/v12/crypto/hd"

	"verifharness/vh"
)

// The key encoding users actually handle: `keys unsafe-export-eth-key` prints a key as hex, `keys unsafe-import-eth-key`
// reads one. Run serially before the parallel legs (the export command prints to the process's stdout, which is
// redirected for the duration of each call): import -> export must print exactly the 64 hex digits of the key, and
// importing what was printed must give the same key again. Keys include those with 1..3 leading zero bytes.
func runCLIKeyRoundTrip(run *vh.Run, enc params.EncodingConfig) {
	if run.OnlyCase != "" && !strings.HasPrefix(run.OnlyCase, "cli/") {
		return
	}
	n := run.N(64, 1200)
	for i := 0; i < n; i++ {
		label := fmt.Sprintf("cli/%d", i)
		if !run.WantCase(label) {
			continue
		}
		r := run.RNG("cli-key", i)
		key := r.Bytes(32)
		zeros := i % 4
		for k := 0; k < zeros; k++ {
			key[k] = 0
		}
		if key[zeros] == 0 {
			key[zeros] = 1
		}
		shape := fmt.Sprintf("leading-zero-bytes=%d", zeros)
		want := strings.ToUpper(hex.EncodeToString(key))
		wit := func(extra map[string]any) map[string]any {
			m := map[string]any{"key_hex": want, "key_shape": shape}
			for k, v := range extra {
				m[k] = v
			}
			return m
		}
		run.Eval(1)
		kr1 := keyring.NewInMemory(enc.Codec, evhd.MultiSecp256k1Option())
		if _, err := cliRun(evclient.UnsafeImportKeyCommand(), kr1, enc, "12345678\n", "k", want); err != nil {
			viol(run, "encoding-roundtrip-mismatch:cli-import", label, wit(map[string]any{"error": err.Error()}))
			continue
		}
		out, err := cliRun(evclient.UnsafeExportEthKeyCommand(), kr1, enc, "", "k")
		if err != nil {
			viol(run, "encoding-roundtrip-mismatch:cli-export", label, wit(map[string]any{"error": err.Error()}))
			continue
		}
		got := strings.TrimSpace(out)
		if got != want {
			viol(run, "encoding-roundtrip-mismatch:cli-export", label, wit(map[string]any{"exported": got, "exported_hex_digits": len(got)}))
			continue
		}
		// what was printed goes into a second keyring and must be the same key
		kr2 := keyring.NewInMemory(enc.Codec, evhd.MultiSecp256k1Option())
		if _, err := cliRun(evclient.UnsafeImportKeyCommand(), kr2, enc, "12345678\n", "k", got); err != nil {
			viol(run, "encoding-roundtrip-mismatch:cli-reimport", label, wit(map[string]any{"error": err.Error()}))
			continue
		}
		rec, err := kr2.Key("k")
		if err != nil {
			viol(run, "encoding-roundtrip-mismatch:cli-reimport", label, wit(map[string]any{"error": err.Error()}))
			continue
		}
		pk, err := rec.GetPubKey()
		wantPub := (&ethsecp256k1.PrivKey{Key: key}).PubKey()
		if err != nil || !bytes.Equal(pk.Bytes(), wantPub.Bytes()) {
			viol(run, "encoding-roundtrip-mismatch:cli-reimport", label, wit(map[string]any{"reimported_pubkey": fmt.Sprintf("%x", pk.Bytes()), "want_pubkey": fmt.Sprintf("%x", wantPub.Bytes())}))
			continue
		}
		run.Count("enc.roundtrip-ok:cli-export-import", 1)
		run.Count("cli_key_round_trips:"+shape, 1)
		run.Nontrivial("enc|cli-export-import|" + shape)
	}
}

// runCLIKeysAdd: `keys add <name> --interactive --dry-run` with a mnemonic and a BIP-39 passphrase typed on stdin (what a
// user recovering a wallet does), --account / --index chosen: the address it prints is the one of the key the reference
// derivation (cosmos-sdk crypto/hd, checked against the published vectors) gives for m/44'/60'/account'/0/index.
func runCLIKeysAdd(run *vh.Run, enc params.EncodingConfig) {
	if run.OnlyCase != "" && !strings.HasPrefix(run.OnlyCase, "cli-add/") {
		return
	}
	n := run.N(40, 600)
	for i := 0; i < n; i++ {
		label := fmt.Sprintf("cli-add/%d", i)
		if !run.WantCase(label) {
			continue
		}
		r := run.RNG("cli-add", i)
		mnemonic, _ := genMnemonic(r)
		pass, passKind := genPassphrase(r)
		if i%3 == 0 {
			pass, passKind = "", "empty"
		}
		// typed on a terminal line: no line breaks or tabs, no surrounding blanks (the prompt trims them)
		if strings.ContainsAny(pass, "\n\r\t") || strings.TrimSpace(pass) != pass {
			pass, passKind = "TREZOR", "ascii"
		}
		account, index := uint32(0), uint32(0)
		if i%2 == 1 {
			account, index = uint32(r.Intn(5)), uint32(r.Intn(50))
		}
		path := fmt.Sprintf("m/44'/60'/%d'/0/%d", account, index)
		run.Eval(1)
		wit := func(extra map[string]any) map[string]any {
			m := map[string]any{"mnemonic": mnemonic, "bip39_passphrase": pass, "passphrase_kind": passKind, "path": path}
			for k, v := range extra {
				m[k] = v
			}
			return m
		}
		seed := bip39.NewSeed(mnemonic, pass)
		master, cc := sdkhd.ComputeMastersFromSeed(seed)
		ref, err := sdkhd.DerivePrivateKeyForPath(master, cc, path)
		if err != nil {
			continue
		}
		want := sdk.AccAddress((&ethsecp256k1.PrivKey{Key: ref}).PubKey().Address()).String()
		answers := mnemonic + "\n" + pass + "\n"
		if pass != "" {
			answers += pass + "\n"
		}
		home, _ := os.MkdirTemp(os.Getenv("VERIF_SCRATCH"), "keys-add-")
		cctx := sdkclient.Context{}.WithCodec(enc.Codec).WithInterfaceRegistry(enc.InterfaceRegistry).WithTxConfig(enc.TxConfig).WithLegacyAmino(enc.Amino).
			WithHomeDir(home).WithKeyringDir(home).WithChainID(vh.ChainID).WithInput(strings.NewReader(answers))
		ctx := context.WithValue(context.Background(), sdkclient.ClientContextKey, &cctx)
		cmd := evclient.KeyCommands(home)
		var stdout, stderr bytes.Buffer
		cmd.SetOut(&stdout)
		cmd.SetErr(&stderr)
		cmd.SilenceUsage, cmd.SilenceErrors = true, true
		cmd.SetArgs([]string{"add", "k", "--interactive", "--dry-run", "--coin-type", "60", "--account", fmt.Sprint(account), "--index", fmt.Sprint(index),
			"--keyring-backend", "test", "--output", "json", "--home", home})
		var cerr error
		func() {
			defer func() {
				if p := recover(); p != nil {
					cerr = fmt.Errorf("panic: %v", p)
				}
			}()
			cerr = cmd.ExecuteContext(ctx)
		}()
		_ = os.RemoveAll(home)
		if cerr != nil {
			viol(run, "hd-derive-mismatch:keys-add-command-failed", label, wit(map[string]any{"error": cerr.Error(), "stderr": trunc(stderr.String(), 400)}))
			continue
		}
		var out struct {
			Address  string `json:"address"`
			Mnemonic string `json:"mnemonic"`
		}
		if err := json.Unmarshal(bytes.TrimSpace(stdout.Bytes()), &out); err != nil {
			run.Count("cli_keys_add_output_not_json", 1)
			continue
		}
		if out.Address != want {
			viol(run, "hd-derive-mismatch:keys-add-interactive:"+passKind, label, wit(map[string]any{"printed_address": out.Address, "reference_address": want}))
			continue
		}
		run.Count("cli_keys_add_interactive_ok", 1)
		run.Count("cli_keys_add_interactive:"+passKind, 1)
		run.Nontrivial("hd|keys-add-interactive|" + passKind + "|" + map[bool]string{true: "default-path", false: "account-index"}[account == 0 && index == 0])
	}
}

// cliRun executes one keys command against an in-memory keyring and returns what it printed to stdout.
func cliRun(cmd *cobra.Command, kr keyring.Keyring, enc params.EncodingConfig, stdin string, args ...string) (out string, err error) {
	cctx := sdkclient.Context{}.WithKeyring(kr).WithCodec(enc.Codec).WithInterfaceRegistry(enc.InterfaceRegistry).WithTxConfig(enc.TxConfig).WithLegacyAmino(enc.Amino).
		WithHomeDir(os.TempDir()).WithKeyringDir(os.TempDir()).WithChainID(vh.ChainID)
	ctx := context.WithValue(context.Background(), sdkclient.ClientContextKey, &cctx)
	cmd.SetArgs(args)
	cmd.SetIn(strings.NewReader(stdin))
	cmd.SetOut(io.Discard)
	cmd.SetErr(io.Discard)
	cmd.SilenceUsage, cmd.SilenceErrors = true, true
	rd, wr, perr := os.Pipe()
	if perr != nil {
		return "", perr
	}
	saved := os.Stdout
	os.Stdout = wr
	done := make(chan string, 1)
	go func() { b, _ := io.ReadAll(rd); done <- string(b) }()
	func() {
		defer func() {
			if p := recover(); p != nil {
				err = fmt.Errorf("panic: %v", p)
			}
		}()
		err = cmd.ExecuteContext(ctx)
	}()
	os.Stdout = saved
	_ = wr.Close()
	out = <-done
	_ = rd.Close()
	return out, err
}
