package c19

import (
	"bytes"
	"encoding/hex"
	"fmt"
	"math/big"

	"github.com/ethereum/go-ethereum/common"
	ethcrypto "github.com/ethereum/go-ethereum/crypto"

	cpcabi "github.com/EscanBE/evermint/v12/x/cpc/abi"
	cpceip712 "github.com/EscanBE/evermint/v12/x/cpc/eip712"

	"verifharness/vh"
)

// typed messages of the staking precompile (x/cpc/abi StakingMessage, WithdrawRewardMessage) hashed
// and verified by x/cpc/eip712.

type cpcPert struct {
	field string
	tm    cpceip712.TypedMessage
	chain *big.Int
	deleg common.Address // the address the precompile would expect (= message.delegator)
}

func cpcHash(tm cpceip712.TypedMessage, chain *big.Int) (h []byte, err error) {
	defer func() {
		if r := recover(); r != nil {
			err = fmt.Errorf("panic: %v", r)
		}
	}()
	return cpceip712.EIP712HashingTypedMessage(tm, chain)
}

func cpcVerify(expected common.Address, tm cpceip712.TypedMessage, sig []byte, chain *big.Int) (match bool, err error) {
	defer func() {
		if r := recover(); r != nil {
			err = fmt.Errorf("panic: %v", r)
		}
	}()
	var r, s [32]byte
	copy(r[:], sig[:32])
	copy(s[:], sig[32:64])
	match, _, err = cpceip712.VerifySignature(expected, tm, r, s, sig[64], chain)
	return
}

func otherBig(r *vh.RNG, v *big.Int) *big.Int {
	switch r.Intn(3) {
	case 0:
		return new(big.Int).Add(v, big.NewInt(1))
	case 1:
		return new(big.Int).Mul(v, big.NewInt(256))
	default:
		for {
			n := genAmount(r).BigInt()
			if n.Cmp(v) != 0 {
				return n
			}
		}
	}
}

func (e *keyEnv) checkCpc(i int, idx *hashIndex) {
	run := e.run
	label := fmt.Sprintf("cpc/%d", i)
	if !run.WantCase(label) {
		return
	}
	r := run.RNG("cpc", i)
	acct := vh.NewAcct(r)
	otherAcct := vh.NewAcct(r)
	chain := big.NewInt(vh.EIP155ID)
	if r.Chance(1, 3) {
		chain = new(big.Int).SetUint64(genU64(r) | 1)
	}
	var tm cpceip712.TypedMessage
	var perts []cpcPert
	var typ string
	ident := func(tm cpceip712.TypedMessage, c *big.Int) [16]byte {
		var id [16]byte
		copy(id[:], keccak([]byte(fmt.Sprintf("%T|%s|%s", tm, vh.J(tm), c)))[:16])
		return id
	}
	if r.Chance(2, 3) {
		typ = "StakingMessage"
		m := cpcabi.StakingMessage{Action: vh.Pick(r, []string{cpcabi.StakingMessageActionDelegate, cpcabi.StakingMessageActionUndelegate, cpcabi.StakingMessageActionRedelegate}),
			Delegator: acct.Addr, Validator: valStr(r.Bytes(20)), Amount: genAmount(r).BigInt(), Denom: vh.Denom, OldValidator: "-"}
		if m.Action == cpcabi.StakingMessageActionRedelegate {
			m.OldValidator = valStr(r.Bytes(20))
		}
		typ += ":" + m.Action
		tm = m
		p := func(field string, f func(c *cpcabi.StakingMessage)) {
			c := m
			c.Amount = new(big.Int).Set(m.Amount)
			f(&c)
			perts = append(perts, cpcPert{field: "StakingMessage." + field, tm: c, chain: chain, deleg: c.Delegator})
		}
		if m.Action != cpcabi.StakingMessageActionRedelegate {
			p("action", func(c *cpcabi.StakingMessage) {
				if c.Action == cpcabi.StakingMessageActionDelegate {
					c.Action = cpcabi.StakingMessageActionUndelegate
				} else {
					c.Action = cpcabi.StakingMessageActionDelegate
				}
			})
		} else {
			p("oldValidator", func(c *cpcabi.StakingMessage) { c.OldValidator = otherAddrBytes(r, c.OldValidator, true) })
			p("validator<->oldValidator", func(c *cpcabi.StakingMessage) { c.Validator, c.OldValidator = c.OldValidator, c.Validator })
		}
		p("delegator", func(c *cpcabi.StakingMessage) { c.Delegator = otherAcct.Addr })
		p("validator", func(c *cpcabi.StakingMessage) { c.Validator = otherAddrBytes(r, c.Validator, true) })
		p("amount", func(c *cpcabi.StakingMessage) { c.Amount = otherBig(r, c.Amount) })
		p("denom", func(c *cpcabi.StakingMessage) { c.Denom = otherDenom(r, nil, c.Denom) })
	} else {
		typ = "WithdrawRewardMessage"
		m := cpcabi.WithdrawRewardMessage{Delegator: acct.Addr, FromValidator: cpcabi.WithdrawRewardMessageActionWithdrawFromAllValidators}
		if r.Bool() {
			m.FromValidator = valStr(r.Bytes(20))
		}
		tm = m
		perts = append(perts,
			cpcPert{field: "WithdrawRewardMessage.delegator", tm: cpcabi.WithdrawRewardMessage{Delegator: otherAcct.Addr, FromValidator: m.FromValidator}, chain: chain, deleg: otherAcct.Addr},
			cpcPert{field: "WithdrawRewardMessage.fromValidator", tm: cpcabi.WithdrawRewardMessage{Delegator: m.Delegator, FromValidator: otherAddrBytes(r, m.FromValidator, true)}, chain: chain, deleg: m.Delegator},
		)
	}
	perts = append(perts, cpcPert{field: "chainId", tm: tm, chain: otherBig(r, chain), deleg: acct.Addr})

	run.Eval(1)
	run.Count("cpc.base:"+typ, 1)
	hA, err := cpcHash(tm, chain)
	if err != nil {
		run.Count("cpc.base-hash-error", 1)
		run.Distinct("cpc_errors", trunc(err.Error(), 120))
		return
	}
	if ok, _ := idx.put(hA, ident(tm, chain), i); !ok {
		viol(run, "cpc-eip712-hash-collision:global", label, map[string]any{"message": tm, "chain_id": chain.String(), "hash": hex.EncodeToString(hA)})
	}
	sig, err := ethcrypto.Sign(hA, acct.Key)
	if err != nil {
		panic(err)
	}
	w := func(extra map[string]any) map[string]any {
		m := map[string]any{"type": typ, "message_A": tm, "chain_id_A": chain.String(), "hash_A": hex.EncodeToString(hA), "sig": hex.EncodeToString(sig), "signer": acct.Addr.Hex()}
		for k, v := range extra {
			m[k] = v
		}
		return m
	}
	// positive, v in {0,1} and {27,28}
	for _, add := range []byte{0, 27} {
		s2 := append([]byte{}, sig...)
		s2[64] += add
		if ok, err := cpcVerify(acct.Addr, tm, s2, chain); !ok || err != nil {
			viol(run, "cpc-eip712-signature-rejected-for-own-message", label, w(map[string]any{"v": s2[64], "error": fmt.Sprint(err)}))
		}
	}
	run.Count("cpc.positive-verified", 2)
	neg := func(class string, expected common.Address, m cpceip712.TypedMessage, s []byte, c *big.Int, extra map[string]any) {
		ok, _ := cpcVerify(expected, m, s, c)
		if ok {
			viol(run, "cpc-eip712-signature-verifies-after-perturbation:"+class, label, w(extra))
			return
		}
		run.Count("cpc.rejected:"+class, 1)
		run.Nontrivial("cpc|" + class + "|" + typ)
	}
	for _, p := range perts {
		hB, err := cpcHash(p.tm, p.chain)
		extra := map[string]any{"perturbation": p.field, "message_B": p.tm, "chain_id_B": p.chain.String()}
		switch {
		case err != nil:
			run.Count("cpc.pert-hash-error:"+p.field, 1)
		case bytes.Equal(hA, hB):
			viol(run, "cpc-eip712-hash-collision:"+p.field, label, w(extra))
		default:
			run.Count("cpc.hash-differs:"+p.field, 1)
			e.cpcCompared.Add(1)
			if ok, _ := idx.put(hB, ident(p.tm, p.chain), i); !ok {
				viol(run, "cpc-eip712-hash-collision:global", label, w(extra))
			}
		}
		neg("field:"+p.field, p.deleg, p.tm, sig, p.chain, extra) // as the precompile calls it: expected = message.delegator
		if p.deleg != acct.Addr {
			neg("field:"+p.field+"(expect-signer)", acct.Addr, p.tm, sig, p.chain, extra)
		}
	}
	neg("key-other", otherAcct.Addr, tm, sig, chain, nil)
	bit := r.Intn(256)
	sr := append([]byte{}, sig...)
	sr[bit/8] ^= 1 << (bit % 8)
	neg("sig-r-bit", acct.Addr, tm, sr, chain, map[string]any{"perturbed_sig": hex.EncodeToString(sr)})
	bit = r.Intn(256)
	ss := append([]byte{}, sig...)
	ss[32+bit/8] ^= 1 << (bit % 8)
	neg("sig-s-bit", acct.Addr, tm, ss, chain, map[string]any{"perturbed_sig": hex.EncodeToString(ss)})
	sv := append([]byte{}, sig...)
	sv[64] ^= 1
	neg("sig-v-flipped", acct.Addr, tm, sv, chain, map[string]any{"perturbed_sig": hex.EncodeToString(sv)})
	// malleated twin (r, n-s, v^1): same key, same message — informational
	sm := append([]byte{}, sig...)
	new(big.Int).Sub(curveN, new(big.Int).SetBytes(sm[32:64])).FillBytes(sm[32:64])
	sm[64] ^= 1
	if ok, _ := cpcVerify(acct.Addr, tm, sm, chain); ok {
		run.Count("cpc.info-accepted:malleated-high-s", 1)
	} else {
		run.Count("cpc.info-rejected:malleated-high-s", 1)
	}
	neg("malleated-other-key", otherAcct.Addr, tm, sm, chain, nil)
	if i < 1 {
		run.Sample(map[string]any{"sub": "cpc-typed-message", "case": label, "type": typ, "message": tm, "chain_id": chain.String(), "hash": hex.EncodeToString(hA)})
	}
}
