package c19

import (
	"context"
	"fmt"
	"math/big"
	"strings"

	sdkmath "cosmossdk.io/math"
	feegranttypes "cosmossdk.io/x/feegrant"
	"github.com/cosmos/cosmos-sdk/client"
	sdk "github.com/cosmos/cosmos-sdk/types"
	"github.com/cosmos/cosmos-sdk/types/tx/signing"
	authsigning "github.com/cosmos/cosmos-sdk/x/auth/signing"
	banktypes "github.com/cosmos/cosmos-sdk/x/bank/types"
	ethcrypto "github.com/ethereum/go-ethereum/crypto"

	"verifharness/vh"
)

// End-to-end leg: real Cosmos-lane transactions whose only signature is over the EIP-712 rendering
// of their sign document go through the application's ante handler (FinalizeBlock). The original
// must be admitted; the same signature on a transaction that differs in one listed field must be refused.

type e2eTx struct {
	msgs []sdk.Msg
	opts vh.CosmosOpts
}

func (t e2eTx) build(c *vh.Chain, a *vh.Acct) client.TxBuilder {
	o := t.opts
	o.NoSign = true
	txb, err := c.CosmosTxBuilder(a, t.msgs, &o)
	if err != nil {
		panic(err)
	}
	return txb
}

func signBytesOf(c *vh.Chain, a *vh.Acct, txb client.TxBuilder, mode signing.SignMode, seq, accNum uint64) []byte {
	priv := a.PrivKey()
	if err := txb.SetSignatures(signing.SignatureV2{PubKey: priv.PubKey(), Data: &signing.SingleSignatureData{SignMode: mode}, Sequence: seq}); err != nil {
		panic(err)
	}
	sd := authsigning.SignerData{ChainID: vh.ChainID, AccountNumber: accNum, Sequence: seq, PubKey: priv.PubKey(), Address: a.Bech32()}
	bz, err := authsigning.GetSignBytesAdapter(context.Background(), c.Enc.TxConfig.SignModeHandler(), mode, sd, txb.GetTx())
	if err != nil {
		panic(err)
	}
	return bz
}

func attach(c *vh.Chain, a *vh.Acct, txb client.TxBuilder, mode signing.SignMode, seq uint64, sig []byte) []byte {
	if err := txb.SetSignatures(signing.SignatureV2{PubKey: a.PrivKey().PubKey(), Data: &signing.SingleSignatureData{SignMode: mode, Signature: sig}, Sequence: seq}); err != nil {
		panic(err)
	}
	return c.Encode(txb)
}

func runE2E(run *vh.Run, c *vh.Chain, accts []*vh.Acct, n int) {
	if run.OnlyCase != "" && !strings.HasPrefix(run.OnlyCase, "e2e/") {
		return
	}
	signers, granter := accts[:len(accts)-1], accts[len(accts)-1]
	// fee allowances granter -> every signer (for the unlisted fee-granter measurement)
	var grants []sdk.Msg
	for _, s := range signers {
		m, err := feegranttypes.NewMsgGrantAllowance(&feegranttypes.BasicAllowance{}, granter.Acc(), s.Acc())
		if err != nil {
			panic(err)
		}
		grants = append(grants, m)
	}
	br := c.NextBlock([][]byte{c.CosmosTx(granter, grants, &vh.CosmosOpts{Gas: 3_000_000})}, nil)
	grantsOK := br.Err == nil && len(br.TxResults()) == 1 && br.TxResults()[0].Code == 0
	if !grantsOK {
		run.Count("e2e.fee-grant-setup-failed", 1)
	}
	for j := 0; j < n; j++ {
		label := fmt.Sprintf("e2e/%d", j)
		if !run.WantCase(label) {
			continue
		}
		r := run.RNG("e2e", j)
		a := signers[j%len(signers)]
		mode, modeName := signing.SignMode_SIGN_MODE_DIRECT, "direct"
		if j%2 == 1 {
			mode, modeName = signing.SignMode_SIGN_MODE_LEGACY_AMINO_JSON, "amino-json"
		}
		acc := c.App.AccountKeeper.GetAccount(c.QueryCtx(), a.Acc())
		seq, accNum := acc.GetSequence(), acc.GetAccountNumber()
		gas := uint64(r.Range(250_000, 400_000))
		fee := sdk.NewCoins(sdk.NewCoin(vh.Denom, sdkmath.NewIntFromBigInt(new(big.Int).Mul(new(big.Int).Mul(c.BaseFee(), big.NewInt(2)), new(big.Int).SetUint64(gas)))))
		base := e2eTx{opts: vh.CosmosOpts{Gas: gas, Fee: fee, Memo: genMemo(r)}}
		for k, nm := 0, r.Range(1, 2); k < nm; k++ {
			base.msgs = append(base.msgs, &banktypes.MsgSend{FromAddress: a.Bech32(), ToAddress: accStr(r.Bytes(20)),
				Amount: sdk.NewCoins(sdk.NewCoin(vh.Denom, sdkmath.NewInt(int64(r.Range(1, 1_000_000)))))})
		}
		txb := base.build(c, a)
		signBytes := signBytesOf(c, a, txb, mode, seq, accNum)
		typed, err := typedBytes(signBytes)
		run.Eval(1)
		if err != nil {
			run.Count("e2e.base-not-renderable", 1)
			run.Distinct("e2e_logs", "render:"+trunc(err.Error(), 120))
			continue
		}
		sig, err := a.PrivKey().Sign(ethcrypto.Keccak256(typed))
		if err != nil {
			panic(err)
		}
		good := attach(c, a, txb, mode, seq, sig)

		// one listed field changed, same signature
		field := vh.Pick(r, []string{"memo", "fee_amount", "gas", "msg.amount", "msg.to_address", "msgs.append"})
		t := e2eTx{msgs: append([]sdk.Msg(nil), base.msgs...), opts: base.opts}
		switch field {
		case "memo":
			t.opts.Memo = otherText(r, t.opts.Memo)
		case "fee_amount":
			t.opts.Fee = sdk.NewCoins(sdk.NewCoin(vh.Denom, fee[0].Amount.AddRaw(int64(r.Range(1, 1000)))))
		case "gas":
			t.opts.Gas = gas + uint64(r.Range(1, 1000))
		case "msg.amount":
			m := *(t.msgs[0].(*banktypes.MsgSend))
			m.Amount = sdk.NewCoins(sdk.NewCoin(vh.Denom, m.Amount[0].Amount.AddRaw(1)))
			t.msgs[0] = &m
		case "msg.to_address":
			m := *(t.msgs[0].(*banktypes.MsgSend))
			m.ToAddress = accStr(r.Bytes(20))
			t.msgs[0] = &m
		case "msgs.append":
			t.msgs = append(t.msgs, &banktypes.MsgSend{FromAddress: a.Bech32(), ToAddress: accStr(r.Bytes(20)), Amount: sdk.NewCoins(sdk.NewCoin(vh.Denom, sdkmath.NewInt(1)))})
		}
		tampered := attach(c, a, t.build(c, a), mode, seq, sig)

		// a third party rewrites the fee granter of a SIGN_MODE_DIRECT transaction (the signer's allowance makes it payable)
		second, secondIsGranter := good, false
		if grantsOK && mode == signing.SignMode_SIGN_MODE_DIRECT && j%3 == 0 {
			g := e2eTx{msgs: base.msgs, opts: base.opts}
			g.opts.Granter = granter.Acc()
			second, secondIsGranter = attach(c, a, g.build(c, a), mode, seq, sig), true
		}
		balSigner, balGranter := c.Balance(a.Addr), c.Balance(granter.Addr)
		br := c.NextBlock([][]byte{tampered, second}, nil)
		res := br.TxResults()
		if br.Err != nil || len(res) != 2 {
			run.Count("e2e.block-error", 1)
			continue
		}
		w := func() map[string]any {
			return map[string]any{"mode": modeName, "signer": a.Bech32(), "sequence": seq, "account_number": accNum, "tampered_field": field,
				"sign_bytes": short(signBytes), "typed_bytes": short(typed), "sig": short(sig), "tx_signed": short(good), "tx_tampered": short(tampered),
				"result_tampered": map[string]any{"code": res[0].Code, "log": res[0].Log}, "result_second": map[string]any{"code": res[1].Code, "log": res[1].Log, "is_granter_rewrite": secondIsGranter}}
		}
		if res[0].Code == 0 {
			viol(run, "e2e-tampered-transaction-admitted:"+field, label, w())
		} else if strings.Contains(res[0].Log, "signature verification failed") {
			run.Count("e2e.tampered-refused", 1)
			run.Count("e2e.tampered-refused:"+field, 1)
			run.Nontrivial("e2e|" + modeName + "|" + field)
		} else {
			run.Count("e2e.tampered-refused-for-another-reason", 1)
			run.Distinct("e2e_logs", "tampered:"+trunc(res[0].Log, 120))
		}
		switch {
		case !secondIsGranter && res[1].Code == 0:
			run.Count("e2e.good-accepted", 1)
			run.Count("e2e.good-accepted:"+modeName, 1)
			run.Nontrivial("e2e|" + modeName + "|accepted")
		case !secondIsGranter && strings.Contains(res[1].Log, "signature verification failed"):
			viol(run, "e2e-eip712-signed-transaction-refused:"+modeName, label, w())
		case !secondIsGranter:
			run.Count("e2e.good-failed-for-another-reason", 1)
			run.Distinct("e2e_logs", "good:"+trunc(res[1].Log, 120))
		case res[1].Code == 0:
			// the signer's signature still covers the rewritten transaction; who paid?
			dS := new(big.Int).Sub(balSigner, c.Balance(a.Addr))
			dG := new(big.Int).Sub(balGranter, c.Balance(granter.Addr))
			ww := w()
			ww["signer_paid"], ww["granter_paid"], ww["fee"] = dS.String(), dG.String(), fee[0].Amount.String()
			viol(run, "e2e-tampered-transaction-admitted:fee_granter", label, ww)
		default:
			run.Count("e2e.fee-granter-rewritten-transaction-refused", 1)
			run.Nontrivial("e2e|" + modeName + "|fee_granter")
			run.Distinct("e2e_logs", "granter:"+trunc(res[1].Log, 120))
		}
		if j < 1 {
			run.Sample(map[string]any{"sub": "e2e", "case": label, "mode": modeName, "tampered_field": field, "tampered_log": trunc(res[0].Log, 100), "second_code": res[1].Code})
		}
	}
}
