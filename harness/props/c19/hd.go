package c19

import (
	"bytes"
	"crypto/sha256"
	"encoding/hex"
	"fmt"
	"strings"

	"github.com/btcsuite/btcd/btcec/v2"
	"github.com/btcsuite/btcd/btcutil/base58"
	"github.com/btcsuite/btcd/btcutil/hdkeychain"
	"github.com/btcsuite/btcd/chaincfg"
	sdkhd "github.com/cosmos/cosmos-sdk/crypto/hd"
	"github.com/cosmos/cosmos-sdk/crypto/keyring"
	sdk "github.com/cosmos/cosmos-sdk/types"
	bip39 "github.com/cosmos/go-bip39"
	"github.com/ethereum/go-ethereum/common"
	tsbip39 "github.com/tyler-smith/go-bip39"
	"golang.org/x/crypto/pbkdf2"
	"golang.org/x/text/unicode/norm"

	"crypto/sha512"

	"github.com/EscanBE/evermint/v12/app/params"
	evhd "github.com/EscanBE/evermint/v12/crypto/hd"
	evertypes "github.com/EscanBE/evermint/v12/types"

	"verifharness/vh"
)

const hardened = uint32(0x80000000)

func pathString(comps []uint32) string {
	var sb strings.Builder
	sb.WriteString("m")
	for _, c := range comps {
		if c >= hardened {
			fmt.Fprintf(&sb, "/%d'", c-hardened)
		} else {
			fmt.Fprintf(&sb, "/%d", c)
		}
	}
	return sb.String()
}

func pathShape(comps []uint32) string {
	b := make([]byte, len(comps))
	for i, c := range comps {
		if c >= hardened {
			b[i] = 'H'
		} else {
			b[i] = 'N'
		}
	}
	return string(b)
}

// evDerive is the code under test: evermint's crypto/hd eth_secp256k1 derivation.
func evDerive(mnemonic, pass, path string) (key []byte, err error) {
	defer func() {
		if r := recover(); r != nil {
			err = fmt.Errorf("panic: %v", r)
		}
	}()
	return evhd.EthSecp256k1.Derive()(mnemonic, pass, path)
}

// refPrefixKeys: cosmos-sdk's independent BIP-32 (big.Int arithmetic, fixed 32-byte keys) for every
// prefix of the path: out[0] = master, out[k] = key after k components.
func refPrefixKeys(seed []byte, comps []uint32) ([][]byte, error) {
	master, cc := sdkhd.ComputeMastersFromSeed(seed)
	out := [][]byte{append([]byte{}, master[:]...)}
	for k := 1; k <= len(comps); k++ {
		key, err := sdkhd.DerivePrivateKeyForPath(master, cc, pathString(comps[:k]))
		if err != nil {
			return nil, err
		}
		out = append(out, key)
	}
	return out, nil
}

func refKeyAt(seed []byte, comps []uint32) []byte {
	master, cc := sdkhd.ComputeMastersFromSeed(seed)
	key, err := sdkhd.DerivePrivateKeyForPath(master, cc, pathString(comps))
	if err != nil {
		panic(err)
	}
	return key
}

var entropySizes = []int{16, 20, 24, 28, 32} // 12 / 15 / 18 / 21 / 24 words

func genMnemonic(r *vh.RNG) (string, int) {
	n := vh.Pick(r, entropySizes)
	ent := r.Bytes(n + 8)[:n]
	m, err := bip39.NewMnemonic(ent)
	if err != nil {
		panic(err)
	}
	return m, n * 3 / 4
}

var passPool = []string{"TREZOR", "password", " ", "correct horse battery staple", "парол", "密码", "😀", "a\tb", "'\"\\"}

func genPassphrase(r *vh.RNG) (string, string) {
	switch r.Intn(10) {
	case 0, 1, 2, 3, 4:
		return "", "empty"
	case 5, 6:
		n := r.Range(1, 24)
		b := make([]byte, n)
		for i := range b {
			b[i] = byte(r.Range(0x20, 0x7e))
		}
		return string(b), "ascii"
	default:
		p := vh.Pick(r, passPool) + vh.Pick(r, passPool)
		p = norm.NFKD.String(p) // already-normalised text: every BIP-39 implementation must agree on it
		cls := "ascii"
		for _, c := range p {
			if c > 0x7e {
				cls = "unicode-nfkd"
			}
		}
		return p, cls
	}
}

func genComponent(r *vh.RNG) uint32 {
	var v uint32
	switch r.Intn(8) {
	case 0:
		v = vh.Pick(r, []uint32{44, 60, 118, 0, 1})
	case 1:
		v = 0x7fffffff
	case 2:
		v = uint32(r.U64() & 0x7fffffff)
	case 3:
		v = uint32(r.Range(0, 100000))
	default:
		v = uint32(r.Range(0, 9))
	}
	if r.Bool() {
		v |= hardened
	}
	return v
}

func genPath(r *vh.RNG) []uint32 {
	if r.Chance(1, 5) { // BIP-44 Ethereum shape m/44'/60'/a'/c/i
		return []uint32{44 | hardened, 60 | hardened, uint32(r.Intn(5)) | hardened, uint32(r.Intn(2)), uint32(r.Range(0, 2000))}
	}
	n := r.Range(1, 8)
	out := make([]uint32, n)
	for i := range out {
		out[i] = genComponent(r)
	}
	return out
}

type hdEnv struct {
	run *vh.Run
	enc params.EncodingConfig
}

type hdCase struct {
	label    string
	origin   string // "random" | "searched" | "searched-lz2" | "vector"
	mnemonic string
	words    int
	pass     string
	passCls  string
	comps    []uint32
	keyring  bool
}

// checkDerivation compares evermint's derivation with the reference and classifies the case by the
// classic BIP-32 divergence (a 32-byte key with leading zero byte(s) on the way).
func (e *hdEnv) checkDerivation(c hdCase) {
	run := e.run
	path := pathString(c.comps)
	seed := bip39.NewSeed(c.mnemonic, c.pass)
	keys, err := refPrefixKeys(seed, c.comps)
	if err != nil {
		panic(fmt.Sprintf("reference failed on %s: %v", path, err))
	}
	n := len(c.comps)
	want := keys[n]
	var classes []string
	zeroAt := -1
	for k := 1; k < n; k++ {
		if keys[k][0] == 0 {
			cl := "leading-zero-intermediate"
			if c.comps[k] >= hardened { // the next step serialises this key: 0x00 || ser256(k)
				cl = "leading-zero-intermediate-before-hardened"
			}
			if keys[k][1] == 0 {
				cl += "-2bytes"
			}
			classes = append(classes, cl)
			if zeroAt < 0 {
				zeroAt = k
			}
		}
	}
	if keys[0][0] == 0 {
		classes = append(classes, "leading-zero-master")
	}
	if want[0] == 0 {
		classes = append(classes, "leading-zero-final")
	}
	class := "plain"
	if len(classes) > 0 {
		class = classes[0]
	}
	run.Eval(1)
	run.Count("hd.derivations:"+c.origin, 1)
	run.Count(fmt.Sprintf("hd.words:%d", c.words), 1)
	run.Count(fmt.Sprintf("hd.depth:%d", n), 1)
	run.Count("hd.passphrase:"+c.passCls, 1)
	for _, cl := range classes {
		run.Count("hd.class:"+c.origin+":"+cl, 1)
	}
	if len(classes) == 0 {
		run.Count("hd.class:"+c.origin+":plain", 1)
	}
	w := func(extra map[string]any) map[string]any {
		m := map[string]any{"mnemonic": c.mnemonic, "passphrase": c.pass, "path": path, "origin": c.origin, "classes": classes,
			"reference_key": hex.EncodeToString(want), "zero_leading_prefix_depth": zeroAt}
		pk := make([]string, len(keys))
		for i, k := range keys {
			pk[i] = hex.EncodeToString(k)
		}
		m["reference_prefix_keys"] = pk
		for k, v := range extra {
			m[k] = v
		}
		return m
	}
	got, err := evDerive(c.mnemonic, c.pass, path)
	if err != nil {
		viol(run, "hd-derive-error:"+class, c.label, w(map[string]any{"error": err.Error()}))
		return
	}
	if !bytes.Equal(got, want) {
		viol(run, "hd-derive-mismatch:"+class, c.label, w(map[string]any{"observed_key": hex.EncodeToString(got)}))
		return
	}
	// what a derivation answers does not depend on what was derived before: the same mnemonic right away with another
	// BIP-39 passphrase (a second wallet on the same words), then the first one again
	if len(c.label) > 0 && c.label[len(c.label)-1]%4 == 1 {
		pass2 := c.pass + "2"
		if c.pass != "" && len(c.label)%2 == 0 {
			pass2 = ""
		}
		keys2, err2 := refPrefixKeys(bip39.NewSeed(c.mnemonic, pass2), c.comps)
		if err2 == nil {
			got2, e2 := evDerive(c.mnemonic, pass2, path)
			if e2 != nil || !bytes.Equal(got2, keys2[n]) {
				viol(run, "hd-derive-mismatch:same-mnemonic-other-passphrase-right-after", c.label, w(map[string]any{"second_passphrase": pass2,
					"observed_key": hex.EncodeToString(got2), "reference_key_for_second_passphrase": hex.EncodeToString(keys2[n]), "error": fmt.Sprint(e2)}))
				return
			}
			if got3, e3 := evDerive(c.mnemonic, c.pass, path); e3 != nil || !bytes.Equal(got3, want) {
				viol(run, "hd-derive-mismatch:first-passphrase-again", c.label, w(map[string]any{"observed_key": hex.EncodeToString(got3), "error": fmt.Sprint(e3)}))
				return
			}
			run.Count("hd.same-mnemonic-two-passphrases-in-a-row", 1)
		}
	}
	// the wallet address of the derived key, against btcec + keccak on the reference key
	_, refPub := btcec.PrivKeyFromBytes(want)
	wantAddr, _ := independentAddress(refPub.SerializeCompressed())
	gotAddr := evhd.EthSecp256k1.Generate()(got).PubKey().Address().Bytes()
	if !bytes.Equal(gotAddr, wantAddr) {
		viol(run, "hd-address-mismatch:"+class, c.label, w(map[string]any{"expected_address": hex.EncodeToString(wantAddr), "observed_address": hex.EncodeToString(gotAddr)}))
	}
	if c.keyring {
		// the same through the SDK keyring configured with evermint's algorithm option (what `keys add --recover` runs)
		kr := keyring.NewInMemory(e.enc.Codec, evhd.MultiSecp256k1Option())
		rec, err := kr.NewAccount("k", c.mnemonic, c.pass, path, evhd.EthSecp256k1)
		if err != nil {
			viol(run, "hd-keyring-error:"+class, c.label, w(map[string]any{"error": err.Error()}))
		} else if pk, err := rec.GetPubKey(); err != nil || !bytes.Equal(pk.Bytes(), refPub.SerializeCompressed()) || !bytes.Equal(pk.Address(), wantAddr) {
			viol(run, "hd-keyring-mismatch:"+class, c.label, w(map[string]any{"error": fmt.Sprint(err)}))
		} else {
			run.Count("hd.keyring-account-matches", 1)
		}
	}
	run.Count("hd.matches-reference", 1)
	shape := pathShape(c.comps)
	if len(classes) > 0 {
		for _, cl := range classes {
			run.Nontrivial(fmt.Sprintf("hd|%s|%s|z%d", cl, shape, zeroAt))
		}
		run.Distinct("hd_leading_zero_shapes", fmt.Sprintf("%s|%s|z%d", class, shape, zeroAt))
	} else {
		run.Nontrivial(fmt.Sprintf("hd|plain|%s|w%d|%s", shape, c.words, c.passCls))
	}
}

func (e *hdEnv) randomCase(i int) {
	label := fmt.Sprintf("hd/%d", i)
	if !e.run.WantCase(label) {
		return
	}
	r := e.run.RNG("hd", i)
	m, words := genMnemonic(r)
	pass, pc := genPassphrase(r)
	c := hdCase{label: label, origin: "random", mnemonic: m, words: words, pass: pass, passCls: pc, comps: genPath(r), keyring: i%8 == 0}
	e.checkDerivation(c)
	if i < 2 {
		e.run.Sample(map[string]any{"sub": "hd", "case": label, "words": words, "path": pathString(c.comps), "passphrase_class": pc})
	}
}

// searchedCase: bounded deterministic search (with the reference implementation only) for a path
// whose intermediate key at depth d has a leading zero byte, then extension below it.
func (e *hdEnv) searchedCase(i int, twoBytes bool) {
	origin, stream := "searched", "hdsearch"
	if twoBytes {
		origin, stream = "searched-lz2", "hdsearch2"
	}
	label := fmt.Sprintf("%s/%d", stream, i)
	if !e.run.WantCase(label) {
		return
	}
	r := e.run.RNG(stream, i)
	m, words := genMnemonic(r)
	pass, pc := "", "empty"
	if r.Chance(1, 4) {
		pass, pc = genPassphrase(r)
	}
	seed := bip39.NewSeed(m, pass)
	d := r.Range(1, 5)
	prefix := make([]uint32, 0, 8)
	for k := 0; k < d-1; k++ {
		c := genComponent(r)
		if r.Bool() || twoBytes {
			c |= hardened // keeps the scan cheap (no point multiplication)
		}
		prefix = append(prefix, c)
	}
	flag := uint32(0)
	if r.Bool() || twoBytes {
		flag = hardened
	}
	limit := uint32(8192)
	if twoBytes {
		limit = 1 << 20
	}
	found := false
	start := uint32(r.Intn(1000))
	for idx := start; idx < start+limit; idx++ {
		cand := append(prefix[:d-1:d-1], idx|flag)
		k := refKeyAt(seed, cand)
		if k[0] == 0 && (!twoBytes || k[1] == 0) {
			prefix = cand
			found = true
			break
		}
	}
	if !found {
		e.run.Count("hd.search-miss:"+origin, 1)
		return
	}
	// below the zero-leading key: mostly a hardened child (the step that serialises the private key)
	next := genComponent(r) &^ hardened
	if r.Chance(3, 4) {
		next |= hardened
	}
	comps := append(prefix, next)
	for k, extra := 0, r.Intn(3); k < extra && len(comps) < 8; k++ {
		comps = append(comps, genComponent(r))
	}
	e.checkDerivation(hdCase{label: label, origin: origin, mnemonic: m, words: words, pass: pass, passCls: pc, comps: comps, keyring: i%8 == 0})
}

// ---------------------------------------------------------------------------------------------
// published vectors

type bip32Vector struct {
	name  string
	seed  string
	chain []struct{ path, xprv string }
}

type pc = struct{ path, xprv string }

var bip32Vectors = []bip32Vector{
	{"bip32-tv1", "000102030405060708090a0b0c0d0e0f", []pc{
		{"m", "xprv9s21ZrQH143K3QTDL4LXw2F7HEK3wJUD2nW2nRk4stbPy6cq3jPPqjiChkVvvNKmPGJxWUtg6LnF5kejMRNNU3TGtRBeJgk33yuGBxrMPHi"},
		{"m/0'", "xprv9uHRZZhk6KAJC1avXpDAp4MDc3sQKNxDiPvvkX8Br5ngLNv1TxvUxt4cV1rGL5hj6KCesnDYUhd7oWgT11eZG7XnxHrnYeSvkzY7d2bhkJ7"},
		{"m/0'/1", "xprv9wTYmMFdV23N2TdNG573QoEsfRrWKQgWeibmLntzniatZvR9BmLnvSxqu53Kw1UmYPxLgboyZQaXwTCg8MSY3H2EU4pWcQDnRnrVA1xe8fs"},
		{"m/0'/1/2'", "xprv9z4pot5VBttmtdRTWfWQmoH1taj2axGVzFqSb8C9xaxKymcFzXBDptWmT7FwuEzG3ryjH4ktypQSAewRiNMjANTtpgP4mLTj34bhnZX7UiM"},
		{"m/0'/1/2'/2", "xprvA2JDeKCSNNZky6uBCviVfJSKyQ1mDYahRjijr5idH2WwLsEd4Hsb2Tyh8RfQMuPh7f7RtyzTtdrbdqqsunu5Mm3wDvUAKRHSC34sJ7in334"},
		{"m/0'/1/2'/2/1000000000", "xprvA41z7zogVVwxVSgdKUHDy1SKmdb533PjDz7J6N6mV6uS3ze1ai8FHa8kmHScGpWmj4WggLyQjgPie1rFSruoUihUZREPSL39UNdE3BBDu76"},
	}},
	{"bip32-tv2", "fffcf9f6f3f0edeae7e4e1dedbd8d5d2cfccc9c6c3c0bdbab7b4b1aeaba8a5a29f9c999693908d8a8784817e7b7875726f6c696663605d5a5754514e4b484542", []pc{
		{"m", "xprv9s21ZrQH143K31xYSDQpPDxsXRTUcvj2iNHm5NUtrGiGG5e2DtALGdso3pGz6ssrdK4PFmM8NSpSBHNqPqm55Qn3LqFtT2emdEXVYsCzC2U"},
		{"m/0", "xprv9vHkqa6EV4sPZHYqZznhT2NPtPCjKuDKGY38FBWLvgaDx45zo9WQRUT3dKYnjwih2yJD9mkrocEZXo1ex8G81dwSM1fwqWpWkeS3v86pgKt"},
		{"m/0/2147483647'", "xprv9wSp6B7kry3Vj9m1zSnLvN3xH8RdsPP1Mh7fAaR7aRLcQMKTR2vidYEeEg2mUCTAwCd6vnxVrcjfy2kRgVsFawNzmjuHc2YmYRmagcEPdU9"},
		{"m/0/2147483647'/1", "xprv9zFnWC6h2cLgpmSA46vutJzBcfJ8yaJGg8cX1e5StJh45BBciYTRXSd25UEPVuesF9yog62tGAQtHjXajPPdbRCHuWS6T8XA2ECKADdw4Ef"},
		{"m/0/2147483647'/1/2147483646'", "xprvA1RpRA33e1JQ7ifknakTFpgNXPmW2YvmhqLQYMmrj4xJXXWYpDPS3xz7iAxn8L39njGVyuoseXzU6rcxFLJ8HFsTjSyQbLYnMpCqE2VbFWc"},
		{"m/0/2147483647'/1/2147483646'/2", "xprvA2nrNbFZABcdryreWet9Ea4LvTJcGsqrMzxHx98MMrotbir7yrKCEXw7nadnHM8Dq38EGfSh6dqA9QWTyefMLEcBYJUuekgW4BYPJcr9E7j"},
	}},
	{"bip32-tv3-leading-zeros", "4b381541583be4423346c643850da4b320e46a87ae3d2a4e6da11eba819cd4acba45d239319ac14f863b8d5ab5a0d0c64d2e8a1e7d1457df2e5a3c51c73235be", []pc{
		{"m", "xprv9s21ZrQH143K25QhxbucbDDuQ4naNntJRi4KUfWT7xo4EKsHt2QJDu7KXp1A3u7Bi1j8ph3EGsZ9Xvz9dGuVrtHHs7pXeTzjuxBrCmmhgC6"},
		{"m/0'", "xprv9uPDJpEQgRQfDcW7BkF7eTya6RPxXeJCqCJGHuCJ4GiRVLzkTXBAJMu2qaMWPrS7AANYqdq6vcBcBUdJCVVFceUvJFjaPdGZ2y9WACViL4L"},
	}},
	{"bip32-tv4-leading-zeros", "3ddd5602285899a946114506157c7997e5444528f3003f6134712147db19b678", []pc{
		{"m", "xprv9s21ZrQH143K48vGoLGRPxgo2JNkJ3J3fqkirQC2zVdk5Dgd5w14S7fRDyHH4dWNHUgkvsvNDCkvAwcSHNAQwhwgNMgZhLtQC63zxwhQmRv"},
		{"m/0'", "xprv9vB7xEWwNp9kh1wQRfCCQMnZUEG21LpbR9NPCNN1dwhiZkjjeGRnaALmPXCX7SgjFTiCTT6bXes17boXtjq3xLpcDjzEuGLQBM5ohqkao9G"},
		{"m/0'/1'", "xprv9xJocDuwtYCMNAo3Zw76WENQeAS6WGXQ55RCy7tDJ8oALr4FWkuVoHJeHVAcAqiZLE7Je3vZJHxspZdFHfnBEjHqU5hG1Jaj32dVoS6XLT1"},
	}},
}

// BIP-39 reference vectors (trezor/python-mnemonic vectors.json, passphrase "TREZOR"): mnemonic -> master xprv.
var bip39Vectors = []struct{ mnemonic, pass, xprv string }{
	{"abandon abandon abandon abandon abandon abandon abandon abandon abandon abandon abandon about", "TREZOR",
		"xprv9s21ZrQH143K3h3fDYiay8mocZ3afhfULfb5GX8kCBdno77K4HiA15Tg23wpbeF1pLfs1c5SPmYHrEpTuuRhxMwvKDwqdKiGJS9XFKzUsAF"},
	{"legal winner thank year wave sausage worth useful legal winner thank yellow", "TREZOR",
		"xprv9s21ZrQH143K2gA81bYFHqU68xz1cX2APaSq5tt6MFSLeXnCKV1RVUJt9FWNTbrrryem4ZckN8k4Ls1H6nwdvDTvnV7zEXs2HgPezuVccsq"},
	{"letter advice cage absurd amount doctor acoustic avoid letter advice cage above", "TREZOR",
		"xprv9s21ZrQH143K2shfP28KM3nr5Ap1SXjz8gc2rAqqMEynmjt6o1qboCDpxckqXavCwdnYds6yBHZGKHv7ef2eTXy461PXUjBFQg6PrwY4Gzq"},
	{"zoo zoo zoo zoo zoo zoo zoo zoo zoo zoo zoo wrong", "TREZOR",
		"xprv9s21ZrQH143K2V4oox4M8Zmhi2Fjx5XK4Lf7GKRvPSgydU3mjZuKGCTg7UPiBUD7ydVPvSLtg9hjp7MQTYsW67rZHAXeccqYqrsx8LcXnyd"},
	{"abandon abandon abandon abandon abandon abandon abandon abandon abandon abandon abandon abandon abandon abandon abandon abandon abandon abandon abandon abandon abandon abandon abandon art", "TREZOR",
		"xprv9s21ZrQH143K32qBagUJAMU2LsHg3ka7jqMcV98Y7gVeVyNStwYS3U7yVVoDZ4btbRNf4h6ibWpY22iRmXq35qgLs79f312g2kj5539ebPM"},
}

// Ethereum wallet vectors (Hardhat/Anvil, ganache-cli -d, Truffle Develop, go-ethereum-hdwallet README, the
// "abandon ... about" first MetaMask account): mnemonic, path -> address (and private key when published).
var walletVectors = []struct{ name, mnemonic, path, address, priv string }{
	{"hardhat-0", "test test test test test test test test test test test junk", "m/44'/60'/0'/0/0", "0xf39Fd6e51aad88F6F4ce6aB8827279cffFb92266", "ac0974bec39a17e36ba4a6b4d238ff944bacb478cbed5efcae784d7bf4f2ff80"},
	{"hardhat-1", "test test test test test test test test test test test junk", "m/44'/60'/0'/0/1", "0x70997970C51812dc3A010C7d01b50e0d17dc79C8", "59c6995e998f97a5a0044966f0945389dc9e86dae88c7a8412f4603b6b78690d"},
	{"hardhat-2", "test test test test test test test test test test test junk", "m/44'/60'/0'/0/2", "0x3C44CdDdB6a900fa2b585dd299e03d12FA4293BC", "5de4111afa1a4b94908f83103eb1f1706367c2e68ca870fc3fb9a804cdab365a"},
	{"hardhat-3", "test test test test test test test test test test test junk", "m/44'/60'/0'/0/3", "0x90F79bf6EB2c4f870365E785982E1f101E93b906", "7c852118294e51e653712a81e05800f419141751be58f605c371e15141b007a6"},
	{"hardhat-4", "test test test test test test test test test test test junk", "m/44'/60'/0'/0/4", "0x15d34AAf54267DB7D7c367839AAf71A00a2C6A65", "47e179ec197488593b187f80a00eb0da91f1b9d0b13f8733639f19c30a34926a"},
	{"ganache-d-0", "myth like bonus scare over problem client lizard pioneer submit female collect", "m/44'/60'/0'/0/0", "0x90F8bf6A479f320ead074411a4B0e7944Ea8c9C1", "4f3edf983ac636a65a842ce7c78d9aa706d3b113bce9c46f30d7d21715b23b1d"},
	{"ganache-d-1", "myth like bonus scare over problem client lizard pioneer submit female collect", "m/44'/60'/0'/0/1", "0xFFcf8FDEE72ac11b5c542428B35EEF5769C409f0", "6cbed15c793ce57650b9877cf6fa156fbef513c4e6134f022a85b1ffdd59b2a1"},
	{"truffle-develop-0", "candy maple cake sugar pudding cream honey rich smooth crumble sweet treat", "m/44'/60'/0'/0/0", "0x627306090abaB3A6e1400e9345bC60c78a8BEf57", "c87509a1c067bbde78beb793e6fa76530b6382a4c0241e5e4a9ec0a0f44dc0d3"},
	{"truffle-develop-1", "candy maple cake sugar pudding cream honey rich smooth crumble sweet treat", "m/44'/60'/0'/0/1", "0xf17f52151EbEF6C7334FAD080c5704D77216b732", "ae6ae8e5ccbfb04590405997ee2d52d2b330726137b875053c36d94e974d162f"},
	{"hdwallet-readme-0", "tag volcano eight thank tide danger coast health above argue embrace heavy", "m/44'/60'/0'/0/0", "0xC49926C4124cEe1cbA0Ea94Ea31a6c12318df947", ""},
	{"hdwallet-readme-1", "tag volcano eight thank tide danger coast health above argue embrace heavy", "m/44'/60'/0'/0/1", "0x8230645aC28A4EdD1b0B53E7Cd8019744E9dD559", ""},
	{"abandon-about-0", "abandon abandon abandon abandon abandon abandon abandon abandon abandon abandon abandon about", "m/44'/60'/0'/0/0", "0x9858EfFD232B4033E47d90003D41EC34EcaEda94", ""},
}

// decodeXprv: base58check by hand (independent of hdkeychain); returns chain code and private key.
func decodeXprv(s string) (cc, key []byte, err error) {
	raw := base58.Decode(s)
	if len(raw) != 82 {
		return nil, nil, fmt.Errorf("xprv length %d", len(raw))
	}
	h1 := sha256.Sum256(raw[:78])
	h2 := sha256.Sum256(h1[:])
	if !bytes.Equal(h2[:4], raw[78:]) {
		return nil, nil, fmt.Errorf("xprv checksum mismatch")
	}
	if raw[45] != 0 {
		return nil, nil, fmt.Errorf("not a private extended key")
	}
	return raw[13:45], raw[46:78], nil
}

func parsePath(p string) []uint32 {
	var out []uint32
	for _, part := range strings.Split(p, "/")[1:] {
		var v uint32
		h := strings.HasSuffix(part, "'")
		fmt.Sscanf(strings.TrimSuffix(part, "'"), "%d", &v)
		if h {
			v |= hardened
		}
		out = append(out, v)
	}
	return out
}

// vectors runs the embedded published vectors. BIP-32 vectors start from a raw seed, which
// evermint's mnemonic-only API cannot take: they validate the reference implementation and the
// pinned hdkeychain library evermint calls (same call sequence as crypto/hd/algorithm.go);
// the BIP-39 and wallet vectors go through evermint's Derive itself.
func (e *hdEnv) vectors() {
	run := e.run
	if run.OnlyCase != "" && !strings.HasPrefix(run.OnlyCase, "vector/") {
		return
	}
	for _, v := range bip32Vectors {
		seed, _ := hex.DecodeString(v.seed)
		for _, c := range v.chain {
			label := "vector/" + v.name + "/" + c.path
			if !run.WantCase(label) {
				continue
			}
			_, want, err := decodeXprv(c.xprv)
			if err != nil {
				panic(fmt.Sprintf("embedded vector %s %s: %v", v.name, c.path, err))
			}
			comps := parsePath(c.path)
			master, cc := sdkhd.ComputeMastersFromSeed(seed)
			ref := master[:]
			if len(comps) > 0 {
				ref, err = sdkhd.DerivePrivateKeyForPath(master, cc, c.path)
				if err != nil {
					panic(err)
				}
			}
			run.Eval(1)
			if !bytes.Equal(ref, want) {
				// the oracle itself would be wrong: never silently continue
				viol(run, "hd-vector-mismatch:reference-vs-bip32", label, map[string]any{"vector": v.name, "path": c.path, "expected": hex.EncodeToString(want), "reference": hex.EncodeToString(ref)})
			} else {
				run.Count("hd.vector-ok:bip32-reference", 1)
			}
			// evermint's call sequence on the pinned library: NewMaster, Derive*, ECPrivKey, 32-byte serialisation
			k, err := hdkeychain.NewMaster(seed, &chaincfg.MainNetParams)
			for _, n := range comps {
				if err == nil {
					k, err = k.Derive(n)
				}
			}
			var lib []byte
			if err == nil {
				var pk *btcec.PrivateKey
				if pk, err = k.ECPrivKey(); err == nil {
					lib = pk.ToECDSA().D.FillBytes(make([]byte, 32))
				}
			}
			if err != nil || !bytes.Equal(lib, want) {
				viol(run, "hd-vector-mismatch:hdkeychain-vs-bip32", label, map[string]any{"vector": v.name, "path": c.path, "expected": hex.EncodeToString(want), "observed": hex.EncodeToString(lib), "error": fmt.Sprint(err)})
			} else {
				run.Count("hd.vector-ok:bip32-hdkeychain", 1)
			}
			if want[0] == 0 {
				run.Count("hd.vector-with-leading-zero-key", 1)
			}
			run.Nontrivial("hd|vector|" + v.name + "|" + c.path)
		}
	}
	for i, v := range bip39Vectors {
		label := fmt.Sprintf("vector/bip39/%d", i)
		if !run.WantCase(label) {
			continue
		}
		_, want, err := decodeXprv(v.xprv)
		if err != nil {
			panic(fmt.Sprintf("embedded bip39 vector %d: %v", i, err))
		}
		run.Eval(1)
		seedRef := bip39.NewSeed(v.mnemonic, v.pass)
		seedEv, err := tsbip39.NewSeedWithErrorChecking(v.mnemonic, v.pass) // the function evermint's Derive calls
		master, _ := sdkhd.ComputeMastersFromSeed(seedRef)
		if err != nil || !bytes.Equal(seedRef, seedEv) || !bytes.Equal(master[:], want) {
			viol(run, "hd-vector-mismatch:bip39-seed", label, map[string]any{"mnemonic": v.mnemonic, "passphrase": v.pass, "expected_master": hex.EncodeToString(want),
				"reference_master": hex.EncodeToString(master[:]), "seeds_equal": bytes.Equal(seedRef, seedEv), "error": fmt.Sprint(err)})
		} else {
			run.Count("hd.vector-ok:bip39-seed", 1)
		}
		// and through evermint's API one level below the published master (m/0' and m/0), against the reference
		for _, comps := range [][]uint32{{hardened}, {0}, {44 | hardened, 60 | hardened, hardened, 0, 0}} {
			e.checkDerivation(hdCase{label: label, origin: "vector", mnemonic: v.mnemonic, words: len(strings.Fields(v.mnemonic)), pass: v.pass, passCls: "ascii", comps: comps})
		}
		run.Nontrivial(fmt.Sprintf("hd|vector|bip39|%d", i))
	}
	for _, v := range walletVectors {
		label := "vector/wallet/" + v.name
		if !run.WantCase(label) {
			continue
		}
		run.Eval(1)
		got, err := evDerive(v.mnemonic, "", v.path)
		var addr common.Address
		if err == nil {
			addr = common.BytesToAddress(evhd.EthSecp256k1.Generate()(got).PubKey().Address())
		}
		if err != nil || addr != common.HexToAddress(v.address) || (v.priv != "" && hex.EncodeToString(got) != v.priv) {
			viol(run, "hd-vector-mismatch:ethereum-wallet", label, map[string]any{"vector": v.name, "mnemonic": v.mnemonic, "path": v.path,
				"expected_address": v.address, "observed_address": addr.Hex(), "expected_key": v.priv, "observed_key": hex.EncodeToString(got), "error": fmt.Sprint(err)})
		} else {
			run.Count("hd.vector-ok:ethereum-wallet", 1)
		}
		e.checkDerivation(hdCase{label: label, origin: "vector", mnemonic: v.mnemonic, words: len(strings.Fields(v.mnemonic)), passCls: "empty", comps: parsePath(v.path), keyring: true})
		run.Nontrivial("hd|vector|wallet|" + v.name)
	}
	// the defaults a user gets without naming a path: BIP-44 coin type 60, m/44'/60'/0'/0/0 (what `keys add` uses)
	if run.WantCase("vector/default-path") {
		run.Eval(1)
		cfg := sdk.GetConfig()
		full := sdkhd.CreateHDPath(cfg.GetCoinType(), 0, 0).String()
		v := walletVectors[0]
		got, err := evDerive(v.mnemonic, "", evertypes.BIP44HDPath)
		got2, err2 := evDerive(v.mnemonic, "", full)
		if evertypes.BIP44HDPath != "m/44'/60'/0'/0/0" || cfg.GetCoinType() != 60 || err != nil || err2 != nil || hex.EncodeToString(got) != v.priv || hex.EncodeToString(got2) != v.priv {
			viol(run, "hd-vector-mismatch:default-path", "vector/default-path", map[string]any{"BIP44HDPath": evertypes.BIP44HDPath, "coin_type": cfg.GetCoinType(), "keyring_default_path": full,
				"mnemonic": v.mnemonic, "expected_key": v.priv, "observed_key": hex.EncodeToString(got), "observed_key_keyring_path": hex.EncodeToString(got2), "errors": fmt.Sprint(err, err2)})
		} else {
			run.Count("hd.vector-ok:default-path", 1)
		}
	}
	// BIP-39 asks for NFKD normalisation of the passphrase; measured, not asserted (the property
	// quantifies over mnemonics and paths; passphrases in the generated cases are already normalised).
	for i, p := range []string{"é", "Ångström", "ＡＢＣ", "①"} {
		if !run.WantCase(fmt.Sprintf("vector/nfkd/%d", i)) {
			continue
		}
		m := bip39Vectors[0].mnemonic
		seed := pbkdf2.Key([]byte(norm.NFKD.String(m)), []byte("mnemonic"+norm.NFKD.String(p)), 2048, 64, sha512.New)
		want := refKeyAt(seed, []uint32{44 | hardened, 60 | hardened, hardened, 0, 0})
		got, err := evDerive(m, p, "m/44'/60'/0'/0/0")
		if err == nil && bytes.Equal(got, want) {
			run.Count("hd.info-unnormalised-passphrase:same-key-as-nfkd-wallet", 1)
		} else {
			run.Count("hd.info-unnormalised-passphrase:differs-from-nfkd-wallet", 1)
		}
	}
}
