package c19

import (
	"encoding/hex"
	"fmt"
	"reflect"
	"sort"
	"strings"

	sdkmath "cosmossdk.io/math"
	feegranttypes "cosmossdk.io/x/feegrant"
	codectypes "github.com/cosmos/cosmos-sdk/codec/types"
	sdk "github.com/cosmos/cosmos-sdk/types"
	vestingtypes "github.com/cosmos/cosmos-sdk/x/auth/vesting/types"
	authztypes "github.com/cosmos/cosmos-sdk/x/authz"
	banktypes "github.com/cosmos/cosmos-sdk/x/bank/types"
	distrtypes "github.com/cosmos/cosmos-sdk/x/distribution/types"
	govv1 "github.com/cosmos/cosmos-sdk/x/gov/types/v1"
	govv1beta1 "github.com/cosmos/cosmos-sdk/x/gov/types/v1beta1"
	slashingtypes "github.com/cosmos/cosmos-sdk/x/slashing/types"
	stakingtypes "github.com/cosmos/cosmos-sdk/x/staking/types"
	"github.com/cosmos/gogoproto/proto"
	ibctransfertypes "github.com/cosmos/ibc-go/v8/modules/apps/transfer/types"
	ibcclienttypes "github.com/cosmos/ibc-go/v8/modules/core/02-client/types"

	cpctypes "github.com/EscanBE/evermint/v12/x/cpc/types"
	vauthtypes "github.com/EscanBE/evermint/v12/x/vauth/types"

	"verifharness/vh"
)

// ---------------------------------------------------------------------------------------------
// value generators ("field values by type")

var denomPool = []string{
	"wei", "uatom2", "stake", "aphoton", "usdc",
	"ibc/27394FB092D2ECCD56123C74F36E4C1F926001CEADA9CA97EA622B25F41E5EB2",
	"factory/evm1qqqqqqqqqqqqqqqqqqqqqqqqqqqqqqqqx3dzn7/sub.denom-1", "A1b", "xyz:abc_d",
}

func genDenom(r *vh.RNG) string {
	if r.Chance(3, 4) {
		return vh.Pick(r, denomPool)
	}
	const first = "abcdefghijklmnopqrstuvwxyzABCDEFGHIJKLMNOPQRSTUVWXYZ"
	const rest = first + "0123456789/:._-"
	n := r.Range(3, 12)
	b := make([]byte, n)
	b[0] = first[r.Intn(len(first))]
	for i := 1; i < n; i++ {
		b[i] = rest[r.Intn(len(rest))]
	}
	return string(b)
}

// genAmount: a positive integer; shapes: tiny, 18-decimals scale, huge (up to 2^240; sdk Int holds 256 bits).
func genAmount(r *vh.RNG) sdkmath.Int {
	switch r.Intn(6) {
	case 0:
		return sdkmath.NewInt(int64(r.Range(1, 9)))
	case 1:
		return sdkmath.NewInt(int64(r.U64()>>1) | 1)
	case 2:
		return sdkmath.NewIntFromBigInt(r.BigBits(r.Range(64, 240))).AddRaw(1)
	case 3:
		return sdkmath.NewIntWithDecimal(int64(r.Range(1, 999)), 18)
	default:
		return sdkmath.NewInt(int64(r.Range(1, 1_000_000_000)))
	}
}

func otherAmount(r *vh.RNG, a sdkmath.Int) sdkmath.Int {
	switch r.Intn(4) {
	case 0:
		return a.AddRaw(1)
	case 1:
		if a.GT(sdkmath.OneInt()) {
			return a.SubRaw(1)
		}
		return a.AddRaw(2)
	case 2:
		return a.MulRaw(10) // same digits plus a zero
	default:
		for {
			b := genAmount(r)
			if !b.Equal(a) {
				return b
			}
		}
	}
}

func genCoin(r *vh.RNG) sdk.Coin { return sdk.Coin{Denom: genDenom(r), Amount: genAmount(r)} }

// genCoins: 1..max coins, sorted, distinct denominations (a valid sdk.Coins).
func genCoins(r *vh.RNG, max int) sdk.Coins {
	n := 1
	if max > 1 && r.Chance(1, 3) {
		n = r.Range(2, max)
	}
	seen := map[string]bool{}
	var cs sdk.Coins
	for len(cs) < n {
		c := genCoin(r)
		if seen[c.Denom] {
			continue
		}
		seen[c.Denom] = true
		cs = append(cs, c)
	}
	sort.Slice(cs, func(i, j int) bool { return cs[i].Denom < cs[j].Denom })
	return cs
}

func otherDenom(r *vh.RNG, avoid sdk.Coins, cur string) string {
	for {
		d := genDenom(r)
		if d == cur {
			continue
		}
		dup := false
		for _, c := range avoid {
			if c.Denom == d {
				dup = true
			}
		}
		if !dup {
			return d
		}
	}
}

// coinsMutations returns the single-field perturbations of a coin list: amount of one coin, denom of
// one coin, one more coin, one coin fewer. Results stay valid (sorted, distinct denominations).
func mutateCoins(r *vh.RNG, cs sdk.Coins, how string) (sdk.Coins, bool) {
	out := make(sdk.Coins, len(cs))
	copy(out, cs)
	switch how {
	case "amount":
		if len(out) == 0 {
			return nil, false
		}
		i := r.Intn(len(out))
		out[i].Amount = otherAmount(r, out[i].Amount)
	case "denom":
		if len(out) == 0 {
			return nil, false
		}
		i := r.Intn(len(out))
		out[i].Denom = otherDenom(r, out, out[i].Denom)
		sort.Slice(out, func(i, j int) bool { return out[i].Denom < out[j].Denom })
	case "add":
		c := genCoin(r)
		c.Denom = otherDenom(r, out, "")
		out = append(out, c)
		sort.Slice(out, func(i, j int) bool { return out[i].Denom < out[j].Denom })
	case "drop":
		if len(out) < 2 {
			return nil, false
		}
		i := r.Intn(len(out))
		out = append(out[:i:i], out[i+1:]...)
	}
	return out, true
}

func accStr(b []byte) string { return sdk.AccAddress(b).String() }
func valStr(b []byte) string { return sdk.ValAddress(b).String() }

func genAddrBytes(r *vh.RNG) []byte {
	if r.Chance(1, 16) {
		return r.Bytes(32) // 32-byte (module / ICA style) addresses are valid bech32 account addresses too
	}
	b := r.Bytes(20)
	if r.Chance(1, 16) {
		b[0] = 0 // leading zero byte
	}
	return b
}

func otherAddrBytes(r *vh.RNG, cur string, val bool) string {
	for {
		b := genAddrBytes(r)
		s := accStr(b)
		if val {
			s = valStr(b)
		}
		if s != cur {
			return s
		}
	}
}

var textAlphabet = []string{"a", "b", "Z", "0", "9", " ", "-", "_", "/", ".", ",", ":", "\"", "\\", "<", ">", "&", "'", "{", "}", "[", "]",
	"\n", "\t", "é", "ж", "漢", "😀", "=", "%", "#", "@", "+", "|"}

// genText: UTF-8 text with JSON/HTML-sensitive characters (amino JSON escapes <, >, &).
func genText(r *vh.RNG, min, max int) string {
	n := r.Range(min, max)
	var sb strings.Builder
	for i := 0; i < n; i++ {
		sb.WriteString(vh.Pick(r, textAlphabet))
	}
	return sb.String()
}

func otherText(r *vh.RNG, cur string) string {
	switch r.Intn(5) {
	case 0:
		return cur + vh.Pick(r, textAlphabet)
	case 1:
		if len(cur) > 0 { // drop the last rune
			rs := []rune(cur)
			return string(rs[:len(rs)-1])
		}
		return "x"
	case 2:
		if cur != strings.ToUpper(cur) {
			return strings.ToUpper(cur)
		}
		return cur + " "
	case 3:
		return " " + cur
	default:
		for {
			t := genText(r, 0, 24)
			if t != cur {
				return t
			}
		}
	}
}

func genU64(r *vh.RNG) uint64 {
	switch r.Intn(5) {
	case 0:
		return uint64(r.Intn(10))
	case 1:
		return r.U64()
	case 2:
		return 1<<53 + uint64(r.Intn(1000)) // beyond float64 integer precision
	default:
		return uint64(r.Intn(1_000_000))
	}
}

func otherU64(r *vh.RNG, cur uint64) uint64 {
	switch r.Intn(3) {
	case 0:
		return cur + 1
	case 1:
		if cur > 0 {
			return cur - 1
		}
		return 7
	default:
		for {
			v := genU64(r)
			if v != cur {
				return v
			}
		}
	}
}

// ---------------------------------------------------------------------------------------------
// message kinds

// mutator changes exactly one field of m (a private deep copy) to a different valid value.
// It returns false when the perturbation does not apply to this instance.
type mutator struct {
	field string
	apply func(r *vh.RNG, m sdk.Msg) bool
}

type msgKind struct {
	name   string
	gen    func(r *vh.RNG, signer []byte) sdk.Msg
	muts   []mutator
	signer string // Go field that carries the signer (its perturbation is rejected in multi-message docs)
}

// ifaceRegistry is the application's interface registry (set by Run); clones unpack nested Any
// values with it, as the application's tx decoder does.
var ifaceRegistry codectypes.InterfaceRegistry

func cloneMsg(m sdk.Msg) sdk.Msg {
	bz, err := proto.Marshal(m)
	if err != nil {
		panic(err)
	}
	out := reflect.New(reflect.TypeOf(m).Elem()).Interface().(sdk.Msg)
	if err := proto.Unmarshal(bz, out); err != nil {
		panic(err)
	}
	if err := codectypes.UnpackInterfaces(out, ifaceRegistry); err != nil {
		panic(err)
	}
	return out
}

func mAcc(field string, p func(sdk.Msg) *string) mutator {
	return mutator{field, func(r *vh.RNG, m sdk.Msg) bool { s := p(m); *s = otherAddrBytes(r, *s, false); return true }}
}
func mVal(field string, p func(sdk.Msg) *string) mutator {
	return mutator{field, func(r *vh.RNG, m sdk.Msg) bool { s := p(m); *s = otherAddrBytes(r, *s, true); return true }}
}
func mText(field string, p func(sdk.Msg) *string) mutator {
	return mutator{field, func(r *vh.RNG, m sdk.Msg) bool { s := p(m); *s = otherText(r, *s); return true }}
}
func mU64(field string, p func(sdk.Msg) *uint64) mutator {
	return mutator{field, func(r *vh.RNG, m sdk.Msg) bool { s := p(m); *s = otherU64(r, *s); return true }}
}
func mCoin(field string, p func(sdk.Msg) *sdk.Coin) []mutator {
	return []mutator{
		{field + ".amount", func(r *vh.RNG, m sdk.Msg) bool { c := p(m); c.Amount = otherAmount(r, c.Amount); return true }},
		{field + ".denom", func(r *vh.RNG, m sdk.Msg) bool { c := p(m); c.Denom = otherDenom(r, nil, c.Denom); return true }},
	}
}
func mCoins(field string, p func(sdk.Msg) *sdk.Coins) []mutator {
	var out []mutator
	for _, how := range []string{"amount", "denom", "add", "drop"} {
		how := how
		out = append(out, mutator{field + "." + how, func(r *vh.RNG, m sdk.Msg) bool {
			c := p(m)
			n, ok := mutateCoins(r, *c, how)
			if ok {
				*c = n
			}
			return ok
		}})
	}
	return out
}

func cat(ms ...any) []mutator {
	var out []mutator
	for _, m := range ms {
		switch v := m.(type) {
		case mutator:
			out = append(out, v)
		case []mutator:
			out = append(out, v...)
		}
	}
	return out
}

func genVoteOption(r *vh.RNG) int32 { return int32(r.Range(1, 4)) }

func genDec(r *vh.RNG) sdkmath.LegacyDec {
	return sdkmath.LegacyNewDecWithPrec(int64(r.Range(1, 999_999)), int64(r.Range(1, 18)))
}

func mustAny(m proto.Message) *codectypes.Any {
	a, err := codectypes.NewAnyWithValue(m)
	if err != nil {
		panic(err)
	}
	return a
}

func genSend(r *vh.RNG, signer []byte) *banktypes.MsgSend {
	return &banktypes.MsgSend{FromAddress: accStr(signer), ToAddress: accStr(genAddrBytes(r)), Amount: genCoins(r, 3)}
}

var kinds = []msgKind{
	{name: "bank.MsgSend", signer: "FromAddress",
		gen: func(r *vh.RNG, s []byte) sdk.Msg { return genSend(r, s) },
		muts: cat(
			mAcc("FromAddress", func(m sdk.Msg) *string { return &m.(*banktypes.MsgSend).FromAddress }),
			mAcc("ToAddress", func(m sdk.Msg) *string { return &m.(*banktypes.MsgSend).ToAddress }),
			mCoins("Amount", func(m sdk.Msg) *sdk.Coins { return &m.(*banktypes.MsgSend).Amount }),
		)},
	{name: "bank.MsgMultiSend", signer: "Inputs",
		gen: func(r *vh.RNG, s []byte) sdk.Msg {
			m := &banktypes.MsgMultiSend{Inputs: []banktypes.Input{{Address: accStr(s), Coins: genCoins(r, 2)}}}
			for i, n := 0, r.Range(1, 3); i < n; i++ {
				m.Outputs = append(m.Outputs, banktypes.Output{Address: accStr(genAddrBytes(r)), Coins: genCoins(r, 2)})
			}
			return m
		},
		muts: cat(
			mAcc("Inputs.address", func(m sdk.Msg) *string { return &m.(*banktypes.MsgMultiSend).Inputs[0].Address }),
			mCoins("Inputs.coins", func(m sdk.Msg) *sdk.Coins { return &m.(*banktypes.MsgMultiSend).Inputs[0].Coins }),
			mutator{"Outputs.address", func(r *vh.RNG, m sdk.Msg) bool {
				o := m.(*banktypes.MsgMultiSend).Outputs
				i := r.Intn(len(o))
				o[i].Address = otherAddrBytes(r, o[i].Address, false)
				return true
			}},
			mutator{"Outputs.coins", func(r *vh.RNG, m sdk.Msg) bool {
				o := m.(*banktypes.MsgMultiSend).Outputs
				i := r.Intn(len(o))
				n, ok := mutateCoins(r, o[i].Coins, vh.Pick(r, []string{"amount", "denom", "add"}))
				if ok {
					o[i].Coins = n
				}
				return ok
			}},
			mutator{"Outputs.add", func(r *vh.RNG, m sdk.Msg) bool {
				mm := m.(*banktypes.MsgMultiSend)
				mm.Outputs = append(mm.Outputs, banktypes.Output{Address: accStr(genAddrBytes(r)), Coins: genCoins(r, 2)})
				return true
			}},
			mutator{"Outputs.drop", func(r *vh.RNG, m sdk.Msg) bool {
				mm := m.(*banktypes.MsgMultiSend)
				if len(mm.Outputs) < 2 {
					return false
				}
				mm.Outputs = mm.Outputs[:len(mm.Outputs)-1]
				return true
			}},
			mutator{"Outputs.swap", func(r *vh.RNG, m sdk.Msg) bool {
				mm := m.(*banktypes.MsgMultiSend)
				if len(mm.Outputs) < 2 || reflect.DeepEqual(mm.Outputs[0], mm.Outputs[1]) {
					return false
				}
				mm.Outputs[0], mm.Outputs[1] = mm.Outputs[1], mm.Outputs[0]
				return true
			}},
		)},
	{name: "staking.MsgDelegate", signer: "DelegatorAddress",
		gen: func(r *vh.RNG, s []byte) sdk.Msg {
			return &stakingtypes.MsgDelegate{DelegatorAddress: accStr(s), ValidatorAddress: valStr(genAddrBytes(r)), Amount: genCoin(r)}
		},
		muts: cat(
			mAcc("DelegatorAddress", func(m sdk.Msg) *string { return &m.(*stakingtypes.MsgDelegate).DelegatorAddress }),
			mVal("ValidatorAddress", func(m sdk.Msg) *string { return &m.(*stakingtypes.MsgDelegate).ValidatorAddress }),
			mCoin("Amount", func(m sdk.Msg) *sdk.Coin { return &m.(*stakingtypes.MsgDelegate).Amount }),
		)},
	{name: "staking.MsgUndelegate", signer: "DelegatorAddress",
		gen: func(r *vh.RNG, s []byte) sdk.Msg {
			return &stakingtypes.MsgUndelegate{DelegatorAddress: accStr(s), ValidatorAddress: valStr(genAddrBytes(r)), Amount: genCoin(r)}
		},
		muts: cat(
			mAcc("DelegatorAddress", func(m sdk.Msg) *string { return &m.(*stakingtypes.MsgUndelegate).DelegatorAddress }),
			mVal("ValidatorAddress", func(m sdk.Msg) *string { return &m.(*stakingtypes.MsgUndelegate).ValidatorAddress }),
			mCoin("Amount", func(m sdk.Msg) *sdk.Coin { return &m.(*stakingtypes.MsgUndelegate).Amount }),
		)},
	{name: "staking.MsgBeginRedelegate", signer: "DelegatorAddress",
		gen: func(r *vh.RNG, s []byte) sdk.Msg {
			return &stakingtypes.MsgBeginRedelegate{DelegatorAddress: accStr(s), ValidatorSrcAddress: valStr(genAddrBytes(r)),
				ValidatorDstAddress: valStr(genAddrBytes(r)), Amount: genCoin(r)}
		},
		muts: cat(
			mAcc("DelegatorAddress", func(m sdk.Msg) *string { return &m.(*stakingtypes.MsgBeginRedelegate).DelegatorAddress }),
			mVal("ValidatorSrcAddress", func(m sdk.Msg) *string { return &m.(*stakingtypes.MsgBeginRedelegate).ValidatorSrcAddress }),
			mVal("ValidatorDstAddress", func(m sdk.Msg) *string { return &m.(*stakingtypes.MsgBeginRedelegate).ValidatorDstAddress }),
			mCoin("Amount", func(m sdk.Msg) *sdk.Coin { return &m.(*stakingtypes.MsgBeginRedelegate).Amount }),
			mutator{"ValidatorSrcAddress<->ValidatorDstAddress", func(r *vh.RNG, m sdk.Msg) bool {
				mm := m.(*stakingtypes.MsgBeginRedelegate)
				if mm.ValidatorSrcAddress == mm.ValidatorDstAddress {
					return false
				}
				mm.ValidatorSrcAddress, mm.ValidatorDstAddress = mm.ValidatorDstAddress, mm.ValidatorSrcAddress
				return true
			}},
		)},
	{name: "staking.MsgCancelUnbondingDelegation", signer: "DelegatorAddress",
		gen: func(r *vh.RNG, s []byte) sdk.Msg {
			return &stakingtypes.MsgCancelUnbondingDelegation{DelegatorAddress: accStr(s), ValidatorAddress: valStr(genAddrBytes(r)),
				Amount: genCoin(r), CreationHeight: int64(genU64(r) >> 1)}
		},
		muts: cat(
			mAcc("DelegatorAddress", func(m sdk.Msg) *string { return &m.(*stakingtypes.MsgCancelUnbondingDelegation).DelegatorAddress }),
			mVal("ValidatorAddress", func(m sdk.Msg) *string { return &m.(*stakingtypes.MsgCancelUnbondingDelegation).ValidatorAddress }),
			mCoin("Amount", func(m sdk.Msg) *sdk.Coin { return &m.(*stakingtypes.MsgCancelUnbondingDelegation).Amount }),
			mutator{"CreationHeight", func(r *vh.RNG, m sdk.Msg) bool {
				mm := m.(*stakingtypes.MsgCancelUnbondingDelegation)
				mm.CreationHeight = int64(otherU64(r, uint64(mm.CreationHeight)) >> 1)
				return true
			}},
		)},
	{name: "staking.MsgEditValidator", signer: "ValidatorAddress",
		gen: func(r *vh.RNG, s []byte) sdk.Msg {
			m := &stakingtypes.MsgEditValidator{ValidatorAddress: valStr(s), Description: stakingtypes.Description{
				Moniker: genText(r, 1, 12), Identity: genText(r, 0, 8), Website: genText(r, 0, 8), SecurityContact: genText(r, 0, 8), Details: genText(r, 0, 20)}}
			if r.Bool() {
				d := genDec(r)
				m.CommissionRate = &d
			}
			if r.Bool() {
				a := genAmount(r)
				m.MinSelfDelegation = &a
			}
			return m
		},
		muts: cat(
			mVal("ValidatorAddress", func(m sdk.Msg) *string { return &m.(*stakingtypes.MsgEditValidator).ValidatorAddress }),
			mText("Description.moniker", func(m sdk.Msg) *string { return &m.(*stakingtypes.MsgEditValidator).Description.Moniker }),
			mText("Description.identity", func(m sdk.Msg) *string { return &m.(*stakingtypes.MsgEditValidator).Description.Identity }),
			mText("Description.website", func(m sdk.Msg) *string { return &m.(*stakingtypes.MsgEditValidator).Description.Website }),
			mText("Description.security_contact", func(m sdk.Msg) *string { return &m.(*stakingtypes.MsgEditValidator).Description.SecurityContact }),
			mText("Description.details", func(m sdk.Msg) *string { return &m.(*stakingtypes.MsgEditValidator).Description.Details }),
			mutator{"Description.moniker<->details", func(r *vh.RNG, m sdk.Msg) bool {
				d := &m.(*stakingtypes.MsgEditValidator).Description
				if d.Moniker == d.Details {
					return false
				}
				d.Moniker, d.Details = d.Details, d.Moniker
				return true
			}},
			mutator{"CommissionRate", func(r *vh.RNG, m sdk.Msg) bool {
				mm := m.(*stakingtypes.MsgEditValidator)
				if mm.CommissionRate == nil || r.Chance(1, 4) {
					if mm.CommissionRate != nil {
						mm.CommissionRate = nil
						return true
					}
					d := genDec(r)
					mm.CommissionRate = &d
					return true
				}
				d := mm.CommissionRate.Add(sdkmath.LegacySmallestDec())
				mm.CommissionRate = &d
				return true
			}},
			mutator{"MinSelfDelegation", func(r *vh.RNG, m sdk.Msg) bool {
				mm := m.(*stakingtypes.MsgEditValidator)
				if mm.MinSelfDelegation == nil {
					a := genAmount(r)
					mm.MinSelfDelegation = &a
					return true
				}
				a := otherAmount(r, *mm.MinSelfDelegation)
				mm.MinSelfDelegation = &a
				return true
			}},
		)},
	{name: "gov.v1beta1.MsgVote", signer: "Voter",
		gen: func(r *vh.RNG, s []byte) sdk.Msg {
			return &govv1beta1.MsgVote{ProposalId: genU64(r), Voter: accStr(s), Option: govv1beta1.VoteOption(genVoteOption(r))}
		},
		muts: cat(
			mU64("ProposalId", func(m sdk.Msg) *uint64 { return &m.(*govv1beta1.MsgVote).ProposalId }),
			mAcc("Voter", func(m sdk.Msg) *string { return &m.(*govv1beta1.MsgVote).Voter }),
			mutator{"Option", func(r *vh.RNG, m sdk.Msg) bool {
				mm := m.(*govv1beta1.MsgVote)
				mm.Option = govv1beta1.VoteOption(int32(mm.Option)%4 + 1)
				return true
			}},
		)},
	{name: "gov.v1.MsgVote", signer: "Voter",
		gen: func(r *vh.RNG, s []byte) sdk.Msg {
			m := &govv1.MsgVote{ProposalId: genU64(r), Voter: accStr(s), Option: govv1.VoteOption(genVoteOption(r))}
			if r.Bool() {
				m.Metadata = genText(r, 1, 16)
			}
			return m
		},
		muts: cat(
			mU64("ProposalId", func(m sdk.Msg) *uint64 { return &m.(*govv1.MsgVote).ProposalId }),
			mAcc("Voter", func(m sdk.Msg) *string { return &m.(*govv1.MsgVote).Voter }),
			mutator{"Option", func(r *vh.RNG, m sdk.Msg) bool {
				mm := m.(*govv1.MsgVote)
				mm.Option = govv1.VoteOption(int32(mm.Option)%4 + 1)
				return true
			}},
			mText("Metadata", func(m sdk.Msg) *string { return &m.(*govv1.MsgVote).Metadata }),
		)},
	{name: "gov.v1beta1.MsgVoteWeighted", signer: "Voter",
		gen: func(r *vh.RNG, s []byte) sdk.Msg {
			m := &govv1beta1.MsgVoteWeighted{ProposalId: genU64(r), Voter: accStr(s)}
			for i, n := 0, r.Range(1, 4); i < n; i++ {
				m.Options = append(m.Options, govv1beta1.WeightedVoteOption{Option: govv1beta1.VoteOption(i + 1), Weight: genDec(r)})
			}
			return m
		},
		muts: cat(
			mU64("ProposalId", func(m sdk.Msg) *uint64 { return &m.(*govv1beta1.MsgVoteWeighted).ProposalId }),
			mAcc("Voter", func(m sdk.Msg) *string { return &m.(*govv1beta1.MsgVoteWeighted).Voter }),
			mutator{"Options.option", func(r *vh.RNG, m sdk.Msg) bool {
				o := m.(*govv1beta1.MsgVoteWeighted).Options
				i := r.Intn(len(o))
				o[i].Option = govv1beta1.VoteOption(int32(o[i].Option)%4 + 1)
				return true
			}},
			mutator{"Options.weight", func(r *vh.RNG, m sdk.Msg) bool {
				o := m.(*govv1beta1.MsgVoteWeighted).Options
				i := r.Intn(len(o))
				o[i].Weight = o[i].Weight.Add(sdkmath.LegacySmallestDec())
				return true
			}},
			mutator{"Options.add", func(r *vh.RNG, m sdk.Msg) bool {
				mm := m.(*govv1beta1.MsgVoteWeighted)
				mm.Options = append(mm.Options, govv1beta1.WeightedVoteOption{Option: govv1beta1.VoteOption(genVoteOption(r)), Weight: genDec(r)})
				return true
			}},
			mutator{"Options.drop", func(r *vh.RNG, m sdk.Msg) bool {
				mm := m.(*govv1beta1.MsgVoteWeighted)
				if len(mm.Options) < 2 {
					return false
				}
				mm.Options = mm.Options[1:]
				return true
			}},
		)},
	{name: "gov.v1beta1.MsgDeposit", signer: "Depositor",
		gen: func(r *vh.RNG, s []byte) sdk.Msg {
			return &govv1beta1.MsgDeposit{ProposalId: genU64(r), Depositor: accStr(s), Amount: genCoins(r, 3)}
		},
		muts: cat(
			mU64("ProposalId", func(m sdk.Msg) *uint64 { return &m.(*govv1beta1.MsgDeposit).ProposalId }),
			mAcc("Depositor", func(m sdk.Msg) *string { return &m.(*govv1beta1.MsgDeposit).Depositor }),
			mCoins("Amount", func(m sdk.Msg) *sdk.Coins { return &m.(*govv1beta1.MsgDeposit).Amount }),
		)},
	{name: "gov.v1.MsgSubmitProposal", signer: "Proposer",
		gen: func(r *vh.RNG, s []byte) sdk.Msg {
			m := &govv1.MsgSubmitProposal{InitialDeposit: genCoins(r, 2), Proposer: accStr(s), Metadata: genText(r, 0, 10),
				Title: genText(r, 1, 10), Summary: genText(r, 1, 20), Expedited: r.Bool()}
			for i, n := 0, r.Intn(3); i < n; i++ {
				m.Messages = append(m.Messages, mustAny(genSend(r, genAddrBytes(r))))
			}
			return m
		},
		muts: cat(
			mutator{"Messages.field", func(r *vh.RNG, m sdk.Msg) bool {
				mm := m.(*govv1.MsgSubmitProposal)
				if len(mm.Messages) == 0 {
					return false
				}
				i := r.Intn(len(mm.Messages))
				in := &banktypes.MsgSend{}
				if err := proto.Unmarshal(mm.Messages[i].Value, in); err != nil {
					panic(err)
				}
				in.ToAddress = otherAddrBytes(r, in.ToAddress, false)
				mm.Messages[i] = mustAny(in)
				return true
			}},
			mutator{"Messages.add", func(r *vh.RNG, m sdk.Msg) bool {
				mm := m.(*govv1.MsgSubmitProposal)
				mm.Messages = append(mm.Messages, mustAny(genSend(r, genAddrBytes(r))))
				return true
			}},
			mutator{"Messages.drop", func(r *vh.RNG, m sdk.Msg) bool {
				mm := m.(*govv1.MsgSubmitProposal)
				if len(mm.Messages) == 0 {
					return false
				}
				mm.Messages = mm.Messages[:len(mm.Messages)-1]
				return true
			}},
			mCoins("InitialDeposit", func(m sdk.Msg) *sdk.Coins {
				return (*sdk.Coins)(&m.(*govv1.MsgSubmitProposal).InitialDeposit)
			}),
			mAcc("Proposer", func(m sdk.Msg) *string { return &m.(*govv1.MsgSubmitProposal).Proposer }),
			mText("Metadata", func(m sdk.Msg) *string { return &m.(*govv1.MsgSubmitProposal).Metadata }),
			mText("Title", func(m sdk.Msg) *string { return &m.(*govv1.MsgSubmitProposal).Title }),
			mText("Summary", func(m sdk.Msg) *string { return &m.(*govv1.MsgSubmitProposal).Summary }),
			mutator{"Title<->Summary", func(r *vh.RNG, m sdk.Msg) bool {
				mm := m.(*govv1.MsgSubmitProposal)
				if mm.Title == mm.Summary {
					return false
				}
				mm.Title, mm.Summary = mm.Summary, mm.Title
				return true
			}},
			mutator{"Expedited", func(r *vh.RNG, m sdk.Msg) bool {
				mm := m.(*govv1.MsgSubmitProposal)
				mm.Expedited = !mm.Expedited
				return true
			}},
		)},
	{name: "distribution.MsgWithdrawDelegatorReward", signer: "DelegatorAddress",
		gen: func(r *vh.RNG, s []byte) sdk.Msg {
			return &distrtypes.MsgWithdrawDelegatorReward{DelegatorAddress: accStr(s), ValidatorAddress: valStr(genAddrBytes(r))}
		},
		muts: cat(
			mAcc("DelegatorAddress", func(m sdk.Msg) *string { return &m.(*distrtypes.MsgWithdrawDelegatorReward).DelegatorAddress }),
			mVal("ValidatorAddress", func(m sdk.Msg) *string { return &m.(*distrtypes.MsgWithdrawDelegatorReward).ValidatorAddress }),
		)},
	{name: "distribution.MsgSetWithdrawAddress", signer: "DelegatorAddress",
		gen: func(r *vh.RNG, s []byte) sdk.Msg {
			return &distrtypes.MsgSetWithdrawAddress{DelegatorAddress: accStr(s), WithdrawAddress: accStr(genAddrBytes(r))}
		},
		muts: cat(
			mAcc("DelegatorAddress", func(m sdk.Msg) *string { return &m.(*distrtypes.MsgSetWithdrawAddress).DelegatorAddress }),
			mAcc("WithdrawAddress", func(m sdk.Msg) *string { return &m.(*distrtypes.MsgSetWithdrawAddress).WithdrawAddress }),
		)},
	{name: "distribution.MsgWithdrawValidatorCommission", signer: "ValidatorAddress",
		gen: func(r *vh.RNG, s []byte) sdk.Msg {
			return &distrtypes.MsgWithdrawValidatorCommission{ValidatorAddress: valStr(s)}
		},
		muts: cat(
			mVal("ValidatorAddress", func(m sdk.Msg) *string { return &m.(*distrtypes.MsgWithdrawValidatorCommission).ValidatorAddress }),
		)},
	{name: "distribution.MsgFundCommunityPool", signer: "Depositor",
		gen: func(r *vh.RNG, s []byte) sdk.Msg {
			return &distrtypes.MsgFundCommunityPool{Amount: genCoins(r, 3), Depositor: accStr(s)}
		},
		muts: cat(
			mCoins("Amount", func(m sdk.Msg) *sdk.Coins { return &m.(*distrtypes.MsgFundCommunityPool).Amount }),
			mAcc("Depositor", func(m sdk.Msg) *string { return &m.(*distrtypes.MsgFundCommunityPool).Depositor }),
		)},
	{name: "slashing.MsgUnjail", signer: "ValidatorAddr",
		gen: func(r *vh.RNG, s []byte) sdk.Msg { return &slashingtypes.MsgUnjail{ValidatorAddr: valStr(s)} },
		muts: cat(
			mVal("ValidatorAddr", func(m sdk.Msg) *string { return &m.(*slashingtypes.MsgUnjail).ValidatorAddr }),
		)},
	{name: "authz.MsgRevoke", signer: "Granter",
		gen: func(r *vh.RNG, s []byte) sdk.Msg {
			return &authztypes.MsgRevoke{Granter: accStr(s), Grantee: accStr(genAddrBytes(r)),
				MsgTypeUrl: vh.Pick(r, []string{"/cosmos.bank.v1beta1.MsgSend", "/cosmos.staking.v1beta1.MsgDelegate", "/cosmos.gov.v1.MsgVote"})}
		},
		muts: cat(
			mAcc("Granter", func(m sdk.Msg) *string { return &m.(*authztypes.MsgRevoke).Granter }),
			mAcc("Grantee", func(m sdk.Msg) *string { return &m.(*authztypes.MsgRevoke).Grantee }),
			mutator{"MsgTypeUrl", func(r *vh.RNG, m sdk.Msg) bool {
				mm := m.(*authztypes.MsgRevoke)
				if mm.MsgTypeUrl == "/cosmos.bank.v1beta1.MsgSend" {
					mm.MsgTypeUrl = "/cosmos.bank.v1beta1.MsgMultiSend"
				} else {
					mm.MsgTypeUrl = "/cosmos.bank.v1beta1.MsgSend"
				}
				return true
			}},
		)},
	{name: "authz.MsgExec", signer: "Grantee",
		gen: func(r *vh.RNG, s []byte) sdk.Msg {
			m := &authztypes.MsgExec{Grantee: accStr(s)}
			for i, n := 0, r.Range(1, 2); i < n; i++ {
				m.Msgs = append(m.Msgs, mustAny(genSend(r, genAddrBytes(r))))
			}
			return m
		},
		muts: cat(
			mAcc("Grantee", func(m sdk.Msg) *string { return &m.(*authztypes.MsgExec).Grantee }),
			mutator{"Msgs.field", func(r *vh.RNG, m sdk.Msg) bool {
				mm := m.(*authztypes.MsgExec)
				i := r.Intn(len(mm.Msgs))
				in := &banktypes.MsgSend{}
				if err := proto.Unmarshal(mm.Msgs[i].Value, in); err != nil {
					panic(err)
				}
				switch r.Intn(3) {
				case 0:
					in.ToAddress = otherAddrBytes(r, in.ToAddress, false)
				case 1:
					in.FromAddress = otherAddrBytes(r, in.FromAddress, false)
				default:
					in.Amount, _ = mutateCoins(r, in.Amount, "amount")
				}
				mm.Msgs[i] = mustAny(in)
				return true
			}},
			mutator{"Msgs.add", func(r *vh.RNG, m sdk.Msg) bool {
				mm := m.(*authztypes.MsgExec)
				mm.Msgs = append(mm.Msgs, mustAny(genSend(r, genAddrBytes(r))))
				return true
			}},
		)},
	{name: "feegrant.MsgRevokeAllowance", signer: "Granter",
		gen: func(r *vh.RNG, s []byte) sdk.Msg {
			return &feegranttypes.MsgRevokeAllowance{Granter: accStr(s), Grantee: accStr(genAddrBytes(r))}
		},
		muts: cat(
			mAcc("Granter", func(m sdk.Msg) *string { return &m.(*feegranttypes.MsgRevokeAllowance).Granter }),
			mAcc("Grantee", func(m sdk.Msg) *string { return &m.(*feegranttypes.MsgRevokeAllowance).Grantee }),
		)},
	{name: "vesting.MsgCreateVestingAccount", signer: "FromAddress",
		gen: func(r *vh.RNG, s []byte) sdk.Msg {
			return &vestingtypes.MsgCreateVestingAccount{FromAddress: accStr(s), ToAddress: accStr(genAddrBytes(r)), Amount: genCoins(r, 2),
				EndTime: int64(1_700_000_000 + r.Intn(100_000_000)), Delayed: r.Bool()}
		},
		muts: cat(
			mAcc("FromAddress", func(m sdk.Msg) *string { return &m.(*vestingtypes.MsgCreateVestingAccount).FromAddress }),
			mAcc("ToAddress", func(m sdk.Msg) *string { return &m.(*vestingtypes.MsgCreateVestingAccount).ToAddress }),
			mCoins("Amount", func(m sdk.Msg) *sdk.Coins { return &m.(*vestingtypes.MsgCreateVestingAccount).Amount }),
			mutator{"EndTime", func(r *vh.RNG, m sdk.Msg) bool {
				m.(*vestingtypes.MsgCreateVestingAccount).EndTime += int64(r.Range(1, 1000))
				return true
			}},
			mutator{"Delayed", func(r *vh.RNG, m sdk.Msg) bool {
				mm := m.(*vestingtypes.MsgCreateVestingAccount)
				mm.Delayed = !mm.Delayed
				return true
			}},
		)},
	{name: "ibc.transfer.MsgTransfer", signer: "Sender",
		gen: func(r *vh.RNG, s []byte) sdk.Msg {
			m := &ibctransfertypes.MsgTransfer{SourcePort: "transfer", SourceChannel: fmt.Sprintf("channel-%d", r.Intn(200)), Token: genCoin(r),
				Sender: accStr(s), Receiver: vh.Pick(r, []string{"cosmos1", "osmo1", "0x"}) + hex.EncodeToString(r.Bytes(8))}
			if r.Chance(2, 3) {
				m.TimeoutHeight = ibcclienttypes.Height{RevisionNumber: uint64(r.Intn(5)), RevisionHeight: uint64(r.Intn(1_000_000))}
			}
			if r.Bool() {
				m.TimeoutTimestamp = 1_700_000_000_000_000_000 + r.U64()%1_000_000_000_000
			}
			if r.Bool() {
				m.Memo = genText(r, 1, 16)
			}
			return m
		},
		muts: cat(
			mutator{"SourcePort", func(r *vh.RNG, m sdk.Msg) bool {
				mm := m.(*ibctransfertypes.MsgTransfer)
				mm.SourcePort = map[bool]string{true: "icahost", false: "transfer"}[mm.SourcePort == "transfer"]
				return true
			}},
			mutator{"SourceChannel", func(r *vh.RNG, m sdk.Msg) bool {
				mm := m.(*ibctransfertypes.MsgTransfer)
				mm.SourceChannel += "0"
				return true
			}},
			mCoin("Token", func(m sdk.Msg) *sdk.Coin { return &m.(*ibctransfertypes.MsgTransfer).Token }),
			mAcc("Sender", func(m sdk.Msg) *string { return &m.(*ibctransfertypes.MsgTransfer).Sender }),
			mText("Receiver", func(m sdk.Msg) *string { return &m.(*ibctransfertypes.MsgTransfer).Receiver }),
			mU64("TimeoutHeight.revision_number", func(m sdk.Msg) *uint64 { return &m.(*ibctransfertypes.MsgTransfer).TimeoutHeight.RevisionNumber }),
			mU64("TimeoutHeight.revision_height", func(m sdk.Msg) *uint64 { return &m.(*ibctransfertypes.MsgTransfer).TimeoutHeight.RevisionHeight }),
			mutator{"TimeoutHeight.number<->height", func(r *vh.RNG, m sdk.Msg) bool {
				h := &m.(*ibctransfertypes.MsgTransfer).TimeoutHeight
				if h.RevisionHeight == h.RevisionNumber {
					return false
				}
				h.RevisionHeight, h.RevisionNumber = h.RevisionNumber, h.RevisionHeight
				return true
			}},
			mU64("TimeoutTimestamp", func(m sdk.Msg) *uint64 { return &m.(*ibctransfertypes.MsgTransfer).TimeoutTimestamp }),
			mText("Memo", func(m sdk.Msg) *string { return &m.(*ibctransfertypes.MsgTransfer).Memo }),
		)},
	{name: "vauth.MsgSubmitProofExternalOwnedAccount", signer: "Submitter",
		gen: func(r *vh.RNG, s []byte) sdk.Msg {
			return &vauthtypes.MsgSubmitProofExternalOwnedAccount{Submitter: accStr(s), Account: accStr(genAddrBytes(r)),
				Signature: "0x" + hex.EncodeToString(r.Bytes(65))}
		},
		muts: cat(
			mAcc("Submitter", func(m sdk.Msg) *string { return &m.(*vauthtypes.MsgSubmitProofExternalOwnedAccount).Submitter }),
			mAcc("Account", func(m sdk.Msg) *string { return &m.(*vauthtypes.MsgSubmitProofExternalOwnedAccount).Account }),
			mutator{"Signature", func(r *vh.RNG, m sdk.Msg) bool {
				m.(*vauthtypes.MsgSubmitProofExternalOwnedAccount).Signature = "0x" + hex.EncodeToString(r.Bytes(65))
				return true
			}},
		)},
	{name: "cpc.MsgDeployErc20ContractRequest", signer: "Authority",
		gen: func(r *vh.RNG, s []byte) sdk.Msg {
			return &cpctypes.MsgDeployErc20ContractRequest{Authority: accStr(s), Name: genText(r, 1, 10), Symbol: strings.ToUpper(genDenom(r)),
				Decimals: uint32(r.Intn(19)), MinDenom: genDenom(r)}
		},
		muts: cat(
			mAcc("Authority", func(m sdk.Msg) *string { return &m.(*cpctypes.MsgDeployErc20ContractRequest).Authority }),
			mText("Name", func(m sdk.Msg) *string { return &m.(*cpctypes.MsgDeployErc20ContractRequest).Name }),
			mText("Symbol", func(m sdk.Msg) *string { return &m.(*cpctypes.MsgDeployErc20ContractRequest).Symbol }),
			mutator{"Decimals", func(r *vh.RNG, m sdk.Msg) bool {
				mm := m.(*cpctypes.MsgDeployErc20ContractRequest)
				mm.Decimals = (mm.Decimals + uint32(r.Range(1, 18))) % 19
				return true
			}},
			mutator{"MinDenom", func(r *vh.RNG, m sdk.Msg) bool {
				mm := m.(*cpctypes.MsgDeployErc20ContractRequest)
				mm.MinDenom = otherDenom(r, nil, mm.MinDenom)
				return true
			}},
			mutator{"Name<->Symbol", func(r *vh.RNG, m sdk.Msg) bool {
				mm := m.(*cpctypes.MsgDeployErc20ContractRequest)
				if mm.Name == mm.Symbol {
					return false
				}
				mm.Name, mm.Symbol = mm.Symbol, mm.Name
				return true
			}},
		)},
	{name: "cpc.MsgDeployStakingContractRequest", signer: "Authority",
		gen: func(r *vh.RNG, s []byte) sdk.Msg {
			return &cpctypes.MsgDeployStakingContractRequest{Authority: accStr(s), Symbol: strings.ToUpper(genDenom(r)), Decimals: uint32(r.Intn(19))}
		},
		muts: cat(
			mAcc("Authority", func(m sdk.Msg) *string { return &m.(*cpctypes.MsgDeployStakingContractRequest).Authority }),
			mText("Symbol", func(m sdk.Msg) *string { return &m.(*cpctypes.MsgDeployStakingContractRequest).Symbol }),
			mutator{"Decimals", func(r *vh.RNG, m sdk.Msg) bool {
				mm := m.(*cpctypes.MsgDeployStakingContractRequest)
				mm.Decimals = (mm.Decimals + uint32(r.Range(1, 18))) % 19
				return true
			}},
		)},
}

// twins: message types with identical field sets; retyping a message (same field values, another
// type) is a single-"field" perturbation of the transaction that must change the hash.
func retype(m sdk.Msg) (sdk.Msg, bool) {
	switch v := m.(type) {
	case *stakingtypes.MsgDelegate:
		return &stakingtypes.MsgUndelegate{DelegatorAddress: v.DelegatorAddress, ValidatorAddress: v.ValidatorAddress, Amount: v.Amount}, true
	case *stakingtypes.MsgUndelegate:
		return &stakingtypes.MsgDelegate{DelegatorAddress: v.DelegatorAddress, ValidatorAddress: v.ValidatorAddress, Amount: v.Amount}, true
	case *govv1beta1.MsgVote:
		return &govv1.MsgVote{ProposalId: v.ProposalId, Voter: v.Voter, Option: govv1.VoteOption(v.Option)}, true
	case *govv1.MsgVote:
		if v.Metadata != "" {
			return nil, false
		}
		return &govv1beta1.MsgVote{ProposalId: v.ProposalId, Voter: v.Voter, Option: govv1beta1.VoteOption(v.Option)}, true
	case *govv1beta1.MsgDeposit:
		return &govv1.MsgDeposit{ProposalId: v.ProposalId, Depositor: v.Depositor, Amount: v.Amount}, true
	case *feegranttypes.MsgRevokeAllowance:
		return &authztypes.MsgRevoke{Granter: v.Granter, Grantee: v.Grantee}, true
	}
	return nil, false
}

// uncoveredFields lists, per message kind, the Go struct fields no mutator touches (evidence; expected empty).
func uncoveredFields() []string {
	var out []string
	for _, k := range kinds {
		m := k.gen(vh.NewRNG(1), make([]byte, 20))
		t := reflect.TypeOf(m).Elem()
		for i := 0; i < t.NumField(); i++ {
			f := t.Field(i)
			if !f.IsExported() || strings.HasPrefix(f.Name, "XXX_") {
				continue
			}
			ok := false
			for _, mu := range k.muts {
				if mu.field == f.Name || strings.HasPrefix(mu.field, f.Name+".") {
					ok = true
				}
			}
			if !ok {
				out = append(out, k.name+"."+f.Name)
			}
		}
	}
	return out
}
