package c19

import (
	"bytes"
	"encoding/hex"
	"fmt"
	"math/big"
	"sync/atomic"

	"github.com/btcsuite/btcd/btcec/v2"
	btcecdsa "github.com/btcsuite/btcd/btcec/v2/ecdsa"
	"github.com/cosmos/cosmos-sdk/codec/legacy"
	cryptotypes "github.com/cosmos/cosmos-sdk/crypto/types"
	sdk "github.com/cosmos/cosmos-sdk/types"
	"github.com/cosmos/cosmos-sdk/types/bech32/legacybech32" //nolint:staticcheck
	"github.com/ethereum/go-ethereum/common"
	ethcrypto "github.com/ethereum/go-ethereum/crypto"
	"golang.org/x/crypto/sha3"

	"github.com/EscanBE/evermint/v12/app/params"
	"github.com/EscanBE/evermint/v12/crypto/ethsecp256k1"
	evhd "github.com/EscanBE/evermint/v12/crypto/hd"
	"github.com/EscanBE/evermint/v12/utils"

	"verifharness/vh"
)

var curveN = btcec.S256().N

// keccak256 independent of go-ethereum (golang.org/x/crypto/sha3).
func keccak(data ...[]byte) []byte {
	h := sha3.NewLegacyKeccak256()
	for _, d := range data {
		h.Write(d)
	}
	return h.Sum(nil)
}

// genPriv draws a valid secp256k1 scalar; with some probability an edge shape (leading zero bytes,
// tiny scalar, n-1, n-small).
func genPriv(r *vh.RNG) *ethsecp256k1.PrivKey {
	for {
		var k []byte
		switch r.Intn(16) {
		case 0, 1:
			k = r.Bytes(32)
			k[0] = 0
		case 2:
			k = r.Bytes(32)
			k[0], k[1], k[2] = 0, 0, 0
		case 3:
			k = make([]byte, 32)
			k[31] = byte(r.Range(1, 255))
		case 4:
			v := new(big.Int).Sub(curveN, big.NewInt(int64(r.Range(1, 255))))
			k = v.FillBytes(make([]byte, 32))
		default:
			k = r.Bytes(32)
		}
		v := new(big.Int).SetBytes(k)
		if v.Sign() > 0 && v.Cmp(curveN) < 0 {
			return &ethsecp256k1.PrivKey{Key: k}
		}
	}
}

// genOtherPub: the public key of a different private key.
func genOtherPub(r *vh.RNG, not *ethsecp256k1.PubKey) *ethsecp256k1.PubKey {
	for {
		p := genPriv(r).PubKey().(*ethsecp256k1.PubKey)
		if !bytes.Equal(p.Key, not.Key) {
			return p
		}
	}
}

func keyShape(k []byte) string {
	switch {
	case k[0] == 0 && k[1] == 0:
		return "lz2+"
	case k[0] == 0:
		return "lz1"
	case k[0] == 0xff:
		return "high"
	}
	return "plain"
}

var msgLens = []int{0, 1, 2, 31, 32, 33, 55, 56, 63, 64, 65, 66, 100, 135, 136, 137, 1000}

func genMsg(r *vh.RNG) []byte {
	if r.Chance(1, 4) {
		return r.Bytes(r.Range(0, 2048))[:]
	}
	n := vh.Pick(r, msgLens)
	return r.Bytes(n + 8)[:n]
}

func lenBucket(n int) string {
	switch {
	case n == 0:
		return "0"
	case n < 32:
		return "<32"
	case n == 32:
		return "32"
	case n <= 136:
		return "<=136"
	}
	return ">136"
}

// independentAddress = last 20 bytes of Keccak-256(X || Y), from the compressed key, without go-ethereum.
func independentAddress(compressed []byte) ([]byte, error) {
	pk, err := btcec.ParsePubKey(compressed)
	if err != nil {
		return nil, err
	}
	un := pk.SerializeUncompressed() // 0x04 || X || Y
	return keccak(un[1:])[12:], nil
}

var degenerate = func() map[string][]byte {
	one := make([]byte, 32)
	one[31] = 1
	n := curveN.FillBytes(make([]byte, 32))
	ff := bytes.Repeat([]byte{0xff}, 32)
	z := make([]byte, 32)
	j := func(a, b []byte, v ...byte) []byte { return append(append(append([]byte{}, a...), b...), v...) }
	return map[string][]byte{
		"empty": {}, "zero64": j(z, z), "zero65": j(z, z, 0), "r0-s1": j(z, one), "r1-s0": j(one, z), "r1-s1": j(one, one), "r1-s1-v0": j(one, one, 0),
		"rN-s1": j(n, one), "r1-sN": j(one, n), "ff64": j(ff, ff), "ff65": j(ff, ff, 1), "one-byte": {1}, "r-only": one,
	}
}()

type keyEnv struct {
	run         *vh.Run
	enc         params.EncodingConfig
	encOK       atomic.Int64
	cpcCompared atomic.Int64
}

func (e *keyEnv) checkKey(i int) {
	run := e.run
	label := fmt.Sprintf("key/%d", i)
	if !run.WantCase(label) {
		return
	}
	r := run.RNG("key", i)
	priv := genPriv(r)
	shape := keyShape(priv.Key)
	run.Eval(1)
	run.Count("key.shape:"+shape, 1)
	pkI := priv.PubKey()
	if pkI == nil {
		viol(run, "pubkey-nil-for-valid-scalar", label, map[string]any{"priv": hex.EncodeToString(priv.Key)})
		return
	}
	pub := pkI.(*ethsecp256k1.PubKey)
	w := func(extra map[string]any) map[string]any {
		m := map[string]any{"priv": hex.EncodeToString(priv.Key), "pub": hex.EncodeToString(pub.Key)}
		for k, v := range extra {
			m[k] = v
		}
		return m
	}

	// --- key -> public key -> address, against btcec + x/crypto keccak
	refPriv, refPub := btcec.PrivKeyFromBytes(priv.Key)
	_ = refPriv
	if !bytes.Equal(refPub.SerializeCompressed(), pub.Key) {
		viol(run, "pubkey-mismatch", label, w(map[string]any{"expected_pub": hex.EncodeToString(refPub.SerializeCompressed())}))
	}
	wantAddr, err := independentAddress(pub.Key)
	if err != nil {
		panic(err)
	}
	if got := pub.Address().Bytes(); !bytes.Equal(got, wantAddr) {
		viol(run, "address-mismatch", label, w(map[string]any{"expected": hex.EncodeToString(wantAddr), "observed": hex.EncodeToString(got)}))
	}
	run.Count("addr.checked", 1)
	if wantAddr[0] == 0 {
		run.Count("addr.leading-zero-byte", 1)
	}
	run.Nontrivial("addr|" + shape)

	// neighbouring public keys: valid compressed keys that differ from this one only in the LAST byte. Their addresses
	// are computed right after this key's (any per-process memoisation keyed by a prefix of the key would mix them up)
	for _, x := range []byte{0x01, 0x02, 0x80, 0xff} {
		cand := append([]byte{}, pub.Key...)
		cand[len(cand)-1] ^= x
		if _, err := btcec.ParsePubKey(cand); err != nil {
			continue // not on the curve
		}
		want, err := independentAddress(cand)
		if err != nil {
			continue
		}
		run.Count("addr.neighbour-keys-checked", 1)
		if got := (&ethsecp256k1.PubKey{Key: cand}).Address().Bytes(); !bytes.Equal(got, want) {
			viol(run, "address-mismatch:neighbour-public-key", label, w(map[string]any{"neighbour_pub": hex.EncodeToString(cand), "expected": hex.EncodeToString(want), "observed": hex.EncodeToString(got)}))
		}
		if got := pub.Address().Bytes(); !bytes.Equal(got, wantAddr) {
			viol(run, "address-mismatch:after-neighbour", label, w(map[string]any{"expected": hex.EncodeToString(wantAddr), "observed": hex.EncodeToString(got)}))
		}
	}

	e.checkEncodings(label, r, priv, pub, shape, w)

	// --- signatures
	msg := genMsg(r)
	lb := lenBucket(len(msg))
	digest := keccak(msg)
	sig, err := priv.Sign(digest)
	if err != nil || len(sig) != 65 {
		viol(run, "sign-failed", label, w(map[string]any{"err": fmt.Sprint(err), "len": len(sig)}))
		return
	}
	ws := func(extra map[string]any) map[string]any {
		m := w(map[string]any{"msg": short(msg), "sig": hex.EncodeToString(sig)})
		for k, v := range extra {
			m[k] = v
		}
		return m
	}
	if len(msg) != 32 {
		// Sign hashes anything that is not 32 bytes long itself; a 32-byte input is taken as the digest
		sig2, err := priv.Sign(msg)
		if err != nil || !bytes.Equal(sig, sig2) {
			run.Count("sig.sign-msg-differs-from-sign-digest", 1) // informational (RFC 6979 determinism expected)
		} else {
			run.Count("sig.sign-msg-equals-sign-digest", 1)
		}
	} else {
		sigRaw, _ := priv.Sign(msg) // treated as a digest: signs msg, not keccak(msg)
		if pub.VerifySignature(msg, sigRaw) {
			run.Count("sig.len32-message-signed-raw-verifies", 1)
		} else {
			run.Count("sig.len32-message-signed-raw-does-not-verify(info)", 1)
		}
	}
	// positive, both signature forms
	if !pub.VerifySignature(msg, sig) {
		viol(run, "signature-rejected-for-own-key-and-message:rsv", label, ws(nil))
	}
	if !pub.VerifySignature(msg, sig[:64]) {
		viol(run, "signature-rejected-for-own-key-and-message:rs", label, ws(nil))
	}
	run.Count("sig.positive-verified", 2)
	// the produced bytes are a genuine ECDSA signature by an independent verifier, and recover to the key
	{
		var rs, ss btcec.ModNScalar
		rs.SetByteSlice(sig[:32])
		ss.SetByteSlice(sig[32:64])
		if !btcecdsa.NewSignature(&rs, &ss).Verify(digest, refPub) {
			viol(run, "signature-not-valid-ecdsa", label, ws(nil))
		}
		compact := append([]byte{27 + 4 + sig[64]}, sig[:64]...)
		rec, _, err := btcecdsa.RecoverCompact(compact, digest)
		if err != nil || !bytes.Equal(rec.SerializeCompressed(), pub.Key) {
			viol(run, "signature-recovers-other-key", label, ws(map[string]any{"err": fmt.Sprint(err)}))
		}
		run.Count("sig.independent-verify-and-recover", 1)
	}

	neg := func(class string, pk *ethsecp256k1.PubKey, m, s []byte) {
		if pk.VerifySignature(m, s) {
			viol(run, "signature-verifies-after-perturbation:"+class, label, ws(map[string]any{"perturbed_pub": hex.EncodeToString(pk.Key), "perturbed_msg": short(m), "perturbed_sig": hex.EncodeToString(s)}))
			return
		}
		run.Count("sig.rejected:"+class, 1)
		run.Nontrivial("sig|" + class + "|" + lb + "|" + shape)
	}
	info := func(class string, pk *ethsecp256k1.PubKey, m, s []byte) {
		if pk.VerifySignature(m, s) {
			run.Count("sig.info-accepted:"+class, 1)
		} else {
			run.Count("sig.info-rejected:"+class, 1)
		}
	}
	for _, form := range []struct {
		n string
		s []byte
	}{{"rsv", sig}, {"rs", sig[:64]}} {
		s0 := form.s
		mut := func(f func(s []byte)) []byte { c := append([]byte{}, s0...); f(c); return c }
		// message
		if len(msg) > 0 {
			m2 := append([]byte{}, msg...)
			bit := r.Intn(len(m2) * 8)
			m2[bit/8] ^= 1 << (bit % 8)
			neg("msg-bit:"+form.n, pub, m2, s0)
			neg("msg-truncated:"+form.n, pub, msg[:len(msg)-1], s0)
		}
		neg("msg-extended:"+form.n, pub, append(append([]byte{}, msg...), byte(r.Intn(256))), s0)
		neg("msg-other:"+form.n, pub, genMsgOther(r, msg), s0)
		neg("msg-is-digest:"+form.n, pub, digest, s0) // the digest is not the message
		// signature r / s
		bit := r.Intn(256)
		neg("sig-r-bit:"+form.n, pub, msg, mut(func(s []byte) { s[bit/8] ^= 1 << (bit % 8) }))
		bit = r.Intn(256)
		sPert := mut(func(s []byte) { s[32+bit/8] ^= 1 << (bit % 8) })
		if negS := new(big.Int).Sub(curveN, new(big.Int).SetBytes(s0[32:64])); negS.Cmp(new(big.Int).SetBytes(sPert[32:64])) != 0 {
			neg("sig-s-bit:"+form.n, pub, msg, sPert)
		}
		neg("sig-r<->s:"+form.n, pub, msg, mut(func(s []byte) {
			var t [32]byte
			copy(t[:], s[:32])
			copy(s[:32], s[32:64])
			copy(s[32:64], t[:])
		}))
		// key
		otherPub := genOtherPub(r, pub)
		neg("key-other:"+form.n, otherPub, msg, s0)
		flipped := &ethsecp256k1.PubKey{Key: append([]byte{pub.Key[0] ^ 1}, pub.Key[1:]...)} // same X, other Y: the negated key
		neg("key-negated:"+form.n, flipped, msg, s0)
		// malleated twin (r, n-s): a second encoding by the SAME key of the SAME message — informational
		info("malleated-high-s:"+form.n, pub, msg, mut(func(s []byte) {
			ns := new(big.Int).Sub(curveN, new(big.Int).SetBytes(s[32:64]))
			ns.FillBytes(s[32:64])
			if len(s) == 65 {
				s[64] ^= 1
			}
		}))
		// and the twin must not verify for anything else either
		neg("malleated-other-key:"+form.n, otherPub, msg, mut(func(s []byte) {
			ns := new(big.Int).Sub(curveN, new(big.Int).SetBytes(s[32:64]))
			ns.FillBytes(s[32:64])
		}))
	}
	// recovery byte: VerifySignature strips it (CONTRACT [R || S]); a changed v is the same (r, s) — informational
	for _, v := range []byte{sig[64] ^ 1, 27 + sig[64], 0xff} {
		c := append([]byte{}, sig...)
		c[64] = v
		info("sig-v-changed", pub, msg, c)
	}
	// length variants of the valid signature — informational (same key, same message)
	info("sig-len-63", pub, msg, sig[:63])
	info("sig-len-66", pub, msg, append(append([]byte{}, sig...), 0))
	info("sig-len-32", pub, msg, sig[:32])
	// blobs that no key produced must not verify under any key for any message
	for name, blob := range degenerate {
		if pub.VerifySignature(msg, blob) {
			viol(run, "degenerate-signature-verifies:"+name, label, ws(map[string]any{"blob": hex.EncodeToString(blob)}))
		} else {
			run.Count("sig.degenerate-rejected", 1)
		}
	}
	run.Nontrivial("sig|degenerate|" + lb)
	if i < 2 {
		run.Sample(map[string]any{"sub": "key+signature", "case": label, "key_shape": shape, "msg_len": len(msg), "address": hex.EncodeToString(wantAddr)})
	}
}

func genMsgOther(r *vh.RNG, msg []byte) []byte {
	for {
		m := genMsg(r)
		if !bytes.Equal(m, msg) {
			return m
		}
	}
}

// checkEncodings: every offered encoding of the key pair / address decodes to the same key.
func (e *keyEnv) checkEncodings(label string, r *vh.RNG, priv *ethsecp256k1.PrivKey, pub *ethsecp256k1.PubKey, shape string, w func(map[string]any) map[string]any) {
	run := e.run
	fail := func(encName string, detail any) {
		viol(run, "encoding-roundtrip-mismatch:"+encName, label, w(map[string]any{"encoding": encName, "detail": fmt.Sprint(detail)}))
	}
	ok := func(encName string) {
		run.Count("enc.roundtrip-ok:"+encName, 1)
		e.encOK.Add(1)
		run.Nontrivial("enc|" + encName + "|" + shape)
	}
	try := func(encName string, f func() error) {
		defer func() {
			if rec := recover(); rec != nil {
				fail(encName, fmt.Sprintf("panic: %v", rec))
			}
		}()
		if err := f(); err != nil {
			fail(encName, err)
		} else {
			ok(encName)
		}
	}
	samePub := func(got cryptotypes.PubKey) error {
		if got == nil || !got.Equals(pub) || !bytes.Equal(got.Bytes(), pub.Key) || !bytes.Equal(got.Address(), pub.Address()) || got.Type() != ethsecp256k1.KeyType {
			return fmt.Errorf("decoded public key differs: %v", got)
		}
		return nil
	}
	samePriv := func(got cryptotypes.PrivKey) error {
		if got == nil || !bytes.Equal(got.Bytes(), priv.Key) || !got.PubKey().Equals(pub) || got.Type() != ethsecp256k1.KeyType {
			return fmt.Errorf("decoded private key differs")
		}
		return nil
	}
	amino := e.enc.Amino
	cdc := e.enc.Codec

	try("pub:amino-json", func() error {
		bz, err := amino.MarshalJSON(pub)
		if err != nil {
			return err
		}
		var got cryptotypes.PubKey
		if err := amino.UnmarshalJSON(bz, &got); err != nil {
			return err
		}
		return samePub(got)
	})
	try("pub:amino-binary", func() error {
		bz, err := amino.Marshal(pub)
		if err != nil {
			return err
		}
		var got cryptotypes.PubKey
		if err := amino.Unmarshal(bz, &got); err != nil {
			return err
		}
		if err := samePub(got); err != nil {
			return err
		}
		got2, err := legacy.PubKeyFromBytes(bz) // the SDK's global amino codec (set by crypto/codec.RegisterCrypto)
		if err != nil {
			return err
		}
		return samePub(got2)
	})
	try("pub:proto-any", func() error {
		bz, err := cdc.MarshalInterface(pub)
		if err != nil {
			return err
		}
		var got cryptotypes.PubKey
		if err := cdc.UnmarshalInterface(bz, &got); err != nil {
			return err
		}
		return samePub(got)
	})
	try("pub:proto-any-json", func() error {
		bz, err := cdc.MarshalInterfaceJSON(pub)
		if err != nil {
			return err
		}
		var got cryptotypes.PubKey
		if err := cdc.UnmarshalInterfaceJSON(bz, &got); err != nil {
			return err
		}
		return samePub(got)
	})
	try("pub:proto-raw", func() error {
		bz, err := pub.Marshal()
		if err != nil {
			return err
		}
		got := &ethsecp256k1.PubKey{}
		if err := got.Unmarshal(bz); err != nil {
			return err
		}
		return samePub(got)
	})
	try("pub:bech32-legacy", func() error {
		s, err := legacybech32.MarshalPubKey(legacybech32.AccPK, pub) //nolint:staticcheck
		if err != nil {
			return err
		}
		got, err := legacybech32.UnmarshalPubKey(legacybech32.AccPK, s) //nolint:staticcheck
		if err != nil {
			return err
		}
		return samePub(got)
	})
	try("priv:amino-json", func() error {
		bz, err := amino.MarshalJSON(priv)
		if err != nil {
			return err
		}
		var got cryptotypes.PrivKey
		if err := amino.UnmarshalJSON(bz, &got); err != nil {
			return err
		}
		return samePriv(got)
	})
	try("priv:amino-binary", func() error {
		bz, err := amino.Marshal(priv)
		if err != nil {
			return err
		}
		var got cryptotypes.PrivKey
		if err := amino.Unmarshal(bz, &got); err != nil {
			return err
		}
		if err := samePriv(got); err != nil {
			return err
		}
		got2, err := legacy.PrivKeyFromBytes(bz)
		if err != nil {
			return err
		}
		return samePriv(got2)
	})
	try("priv:proto-any", func() error {
		bz, err := cdc.MarshalInterface(priv)
		if err != nil {
			return err
		}
		var got cryptotypes.PrivKey
		if err := cdc.UnmarshalInterface(bz, &got); err != nil {
			return err
		}
		return samePriv(got)
	})
	try("priv:hex-ecdsa", func() error {
		k, err := ethcrypto.HexToECDSA(hex.EncodeToString(priv.Bytes()))
		if err != nil {
			return err
		}
		if err := samePriv(&ethsecp256k1.PrivKey{Key: ethcrypto.FromECDSA(k)}); err != nil {
			return err
		}
		k2, err := priv.ToECDSA()
		if err != nil {
			return err
		}
		if k2.D.Cmp(new(big.Int).SetBytes(priv.Key)) != 0 || !bytes.Equal(ethcrypto.CompressPubkey(&k2.PublicKey), pub.Key) {
			return fmt.Errorf("ToECDSA differs")
		}
		return nil
	})
	try("priv:hd-generate", func() error {
		return samePriv(evhd.EthSecp256k1.Generate()(priv.Bytes()))
	})
	try("addr:bech32", func() error {
		s := sdk.AccAddress(pub.Address()).String()
		got, err := sdk.AccAddressFromBech32(s)
		if err != nil {
			return err
		}
		got2, err := utils.GetEvermintAddressFromBech32(s)
		if err != nil {
			return err
		}
		if !bytes.Equal(got, pub.Address()) || !bytes.Equal(got2, pub.Address()) {
			return fmt.Errorf("bech32 %s decodes to %x / %x", s, got, got2)
		}
		v := sdk.ValAddress(pub.Address()).String()
		got3, err := utils.GetEvermintAddressFromBech32(v)
		if err != nil {
			return err
		}
		if !bytes.Equal(got3, pub.Address()) {
			return fmt.Errorf("valoper bech32 %s decodes to %x", v, got3)
		}
		return nil
	})
	try("addr:hex-eip55", func() error {
		a := common.BytesToAddress(pub.Address())
		if got := common.HexToAddress(a.Hex()); got != a {
			return fmt.Errorf("hex %s decodes to %s", a.Hex(), got.Hex())
		}
		got, err := sdk.AccAddressFromHexUnsafe(hex.EncodeToString(pub.Address()))
		if err != nil {
			return err
		}
		if !bytes.Equal(got, pub.Address()) {
			return fmt.Errorf("sdk hex decodes to %x", got)
		}
		return nil
	})
}
