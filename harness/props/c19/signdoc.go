package c19

import (
	"bytes"
	"context"
	"crypto/sha256"
	"fmt"
	"strings"
	"sync"

	sdkmath "cosmossdk.io/math"
	codectypes "github.com/cosmos/cosmos-sdk/codec/types"
	sdk "github.com/cosmos/cosmos-sdk/types"
	txtypes "github.com/cosmos/cosmos-sdk/types/tx"
	"github.com/cosmos/cosmos-sdk/types/tx/signing"
	"github.com/cosmos/cosmos-sdk/x/auth/migrations/legacytx"
	authsigning "github.com/cosmos/cosmos-sdk/x/auth/signing"
	authztypes "github.com/cosmos/cosmos-sdk/x/authz"
	ethcrypto "github.com/ethereum/go-ethereum/crypto"

	"github.com/EscanBE/evermint/v12/app/params"
	"github.com/EscanBE/evermint/v12/crypto/ethsecp256k1"
	"github.com/EscanBE/evermint/v12/ethereum/eip712"

	"verifharness/vh"
)

// doc is the harness model of one single-signer sign document. The "listed" fields are the ones
// the property names (chain id, account number, sequence, fee amount, gas limit, memo, messages);
// Granter/Payer/Timeout/Tip are transaction fields the property does not list (measured only).
type doc struct {
	ChainID string
	AccNum  uint64
	Seq     uint64
	Fee     sdk.Coins
	Gas     uint64
	Memo    string
	Msgs    []sdk.Msg
	Kinds   []string // kind name per message

	Granter string
	Payer   string
	Timeout uint64
	Tip     *txtypes.Tip
	ExtOpts []*codectypes.Any // protobuf body only
	NonCrit []*codectypes.Any // protobuf body only
}

func (d *doc) clone() *doc {
	c := *d
	c.Fee = append(sdk.Coins(nil), d.Fee...)
	c.Msgs = append([]sdk.Msg(nil), d.Msgs...) // messages are replaced, never edited in place
	c.Kinds = append([]string(nil), d.Kinds...)
	return &c
}

const (
	fmtAmino   = "amino"      // legacytx.StdSignBytes (what legacy clients and the encoder's protobuf path render)
	fmtProto   = "proto"      // SIGN_MODE_DIRECT SignDoc
	fmtAminoTx = "amino-x/tx" // SIGN_MODE_LEGACY_AMINO_JSON bytes of the application's sign-mode handler (what the ante handler verifies)
)

var formats = []string{fmtAmino, fmtProto, fmtAminoTx}

// renderAmino is the legacy amino-JSON sign document (legacytx.StdSignBytes).
func (d *doc) renderAmino() []byte {
	return legacytx.StdSignBytes(d.ChainID, d.AccNum, d.Seq, d.Timeout,
		legacytx.StdFee{Amount: d.Fee, Gas: d.Gas, Payer: d.Payer, Granter: d.Granter}, d.Msgs, d.Memo)
}

// renderProto is the SIGN_MODE_DIRECT sign document (tx.SignDoc) for signer key pub.
func (d *doc) renderProto(pub *ethsecp256k1.PubKey) []byte {
	anys := make([]*codectypes.Any, len(d.Msgs))
	for i, m := range d.Msgs {
		anys[i] = mustAny(m)
	}
	body := &txtypes.TxBody{Messages: anys, Memo: d.Memo, TimeoutHeight: d.Timeout, ExtensionOptions: d.ExtOpts, NonCriticalExtensionOptions: d.NonCrit}
	ai := &txtypes.AuthInfo{
		SignerInfos: []*txtypes.SignerInfo{{
			PublicKey: mustAny(pub),
			ModeInfo:  &txtypes.ModeInfo{Sum: &txtypes.ModeInfo_Single_{Single: &txtypes.ModeInfo_Single{Mode: signing.SignMode_SIGN_MODE_DIRECT}}},
			Sequence:  d.Seq,
		}},
		Fee: &txtypes.Fee{Amount: d.Fee, GasLimit: d.Gas, Payer: d.Payer, Granter: d.Granter},
		Tip: d.Tip,
	}
	bb, err := body.Marshal()
	if err != nil {
		panic(err)
	}
	ab, err := ai.Marshal()
	if err != nil {
		panic(err)
	}
	sd := &txtypes.SignDoc{BodyBytes: bb, AuthInfoBytes: ab, ChainId: d.ChainID, AccountNumber: d.AccNum}
	bz, err := sd.Marshal()
	if err != nil {
		panic(err)
	}
	return bz
}

func (e *docEnv) render(d *doc, format string, pub *ethsecp256k1.PubKey) (bz []byte, err error) {
	defer func() {
		if r := recover(); r != nil {
			err = fmt.Errorf("render panic: %v", r)
		}
	}()
	switch format {
	case fmtAmino:
		return d.renderAmino(), nil
	case fmtProto:
		return d.renderProto(pub), nil
	}
	return e.txConfigBytes(d, pub, signing.SignMode_SIGN_MODE_LEGACY_AMINO_JSON)
}

// identity is the canonical rendering of the LISTED fields only (unlisted ones blanked); two docs
// with different identities are different transactions in the sense of the property.
func (d *doc) identity() [16]byte {
	c := *d
	c.Granter, c.Payer, c.Timeout, c.Tip = "", "", 0, nil
	h := sha256.Sum256(c.renderAmino())
	var out [16]byte
	copy(out[:], h[:16])
	return out
}

// describe renders a doc for witnesses.
func (d *doc) describe() map[string]any {
	return map[string]any{"amino_sign_doc": string(d.renderAmino()), "kinds": d.Kinds,
		"granter": d.Granter, "payer": d.Payer, "timeout": d.Timeout}
}

// ---------------------------------------------------------------------------------------------
// generation

var chainNames = []string{"evermint", "evm", "a", "cosmoshub", "evermintx"}

func genChainID(r *vh.RNG) string {
	if r.Chance(1, 2) {
		return vh.ChainID
	}
	var n uint64
	switch r.Intn(5) {
	case 0:
		n = uint64(r.Range(1, 9))
	case 1:
		n = 1<<53 + uint64(r.Intn(1000))
	case 2:
		n = r.U64()>>1 | 1 // < 2^63
	default:
		n = uint64(r.Range(1, 999_999))
	}
	return fmt.Sprintf("%s_%d-%d", vh.Pick(r, chainNames), n, r.Range(1, 12))
}

func genFee(r *vh.RNG) sdk.Coins {
	if r.Chance(1, 10) {
		return sdk.Coins{}
	}
	if r.Chance(2, 3) {
		return sdk.Coins{{Denom: vh.Denom, Amount: genAmount(r)}}
	}
	return genCoins(r, 2)
}

func genMemo(r *vh.RNG) string {
	switch r.Intn(8) {
	case 0, 1, 2:
		return ""
	case 3:
		return `{"msgs":[],"memo":"x"}`
	default:
		return genText(r, 1, 48)
	}
}

func genDoc(r *vh.RNG, signer []byte) *doc {
	d := &doc{ChainID: genChainID(r), AccNum: genU64(r), Seq: genU64(r), Fee: genFee(r), Gas: genU64(r), Memo: genMemo(r)}
	n := 1
	switch r.Intn(10) {
	case 6, 7, 8:
		n = 2
	case 9:
		n = 3
	}
	for i := 0; i < n; i++ {
		k := kinds[r.Intn(len(kinds))]
		if i > 0 && r.Chance(1, 3) { // same type twice (shared / numbered schema)
			for _, kk := range kinds {
				if kk.name == d.Kinds[0] {
					k = kk
				}
			}
		}
		d.Msgs = append(d.Msgs, k.gen(r, signer))
		d.Kinds = append(d.Kinds, k.name)
	}
	return d
}

func kindByName(n string) *msgKind {
	for i := range kinds {
		if kinds[i].name == n {
			return &kinds[i]
		}
	}
	return nil
}

// ---------------------------------------------------------------------------------------------
// single-field perturbations

type pert struct {
	class    string // classifier: which field
	group    string // coarse class for counters / non-trivial keys
	kind     string // message kind concerned ("" for envelope fields)
	unlisted bool   // field not named by the property: measured, never a violation
	doc      *doc
}

func splitChain(id string) (name, num, epoch string) {
	i := strings.LastIndex(id, "_")
	j := strings.LastIndex(id, "-")
	return id[:i], id[i+1 : j], id[j+1:]
}

func perturbations(r *vh.RNG, d *doc, signer []byte) []pert {
	var out []pert
	add := func(class, group, kind string, unlisted bool, f func(c *doc) bool) {
		c := d.clone()
		if f(c) {
			out = append(out, pert{class: class, group: group, kind: kind, unlisted: unlisted, doc: c})
		}
	}
	name, num, epoch := splitChain(d.ChainID)
	add("chain_id:name", "chain_id", "", false, func(c *doc) bool {
		n := vh.Pick(r, chainNames)
		if n == name {
			n = name + "x"
		}
		c.ChainID = n + "_" + num + "-" + epoch
		return true
	})
	add("chain_id:eip155", "chain_id", "", false, func(c *doc) bool {
		switch r.Intn(3) {
		case 0:
			c.ChainID = name + "_" + num + "0-" + epoch
		case 1:
			c.ChainID = name + "_1" + num + "-" + epoch
		default:
			c.ChainID = fmt.Sprintf("%s_%d-%s", name, r.Range(1, 99999), epoch)
			if c.ChainID == d.ChainID {
				return false
			}
		}
		return len(c.ChainID) <= 48
	})
	add("chain_id:epoch", "chain_id", "", false, func(c *doc) bool {
		c.ChainID = name + "_" + num + "-" + epoch + vh.Pick(r, []string{"0", "1", "7"})
		return len(c.ChainID) <= 48
	})
	add("account_number", "account_number", "", false, func(c *doc) bool { c.AccNum = otherU64(r, c.AccNum); return true })
	add("sequence", "sequence", "", false, func(c *doc) bool { c.Seq = otherU64(r, c.Seq); return true })
	add("account_number<->sequence", "sequence", "", false, func(c *doc) bool {
		c.AccNum, c.Seq = c.Seq, c.AccNum
		return c.AccNum != c.Seq
	})
	add("gas", "gas", "", false, func(c *doc) bool { c.Gas = otherU64(r, c.Gas); return true })
	add("gas<->sequence", "gas", "", false, func(c *doc) bool {
		c.Gas, c.Seq = c.Seq, c.Gas
		return c.Gas != c.Seq
	})
	add("memo", "memo", "", false, func(c *doc) bool { c.Memo = otherText(r, c.Memo); return true })
	for _, how := range []string{"amount", "denom", "add", "drop"} {
		how := how
		cls := map[string]string{"amount": "fee_amount", "denom": "fee_denom", "add": "fee_coin_add", "drop": "fee_coin_drop"}[how]
		add(cls, cls, "", false, func(c *doc) bool {
			if how == "drop" && len(c.Fee) == 1 {
				c.Fee = sdk.Coins{}
				return true
			}
			n, ok := mutateCoins(r, c.Fee, how)
			if ok {
				c.Fee = n
			}
			return ok
		})
	}
	// fee lists that a "canonical coins" constructor would fold together: a zero-amount coin more, the same coins in
	// another order (different sign documents; a rendering may refuse them but not render them like the original)
	add("fee_coin_add_zero", "fee_coin_add_zero", "", false, func(c *doc) bool {
		denom := vh.Pick(r, []string{"uatom", "zzz", "aaa", vh.SecondDenom})
		for _, x := range c.Fee {
			if x.Denom == denom {
				return false
			}
		}
		c.Fee = append(append(sdk.Coins{}, c.Fee...), sdk.Coin{Denom: denom, Amount: sdkmath.ZeroInt()})
		return true
	})
	add("fee_coin_reorder", "fee_coin_reorder", "", false, func(c *doc) bool {
		if len(c.Fee) < 2 {
			return false
		}
		n := append(sdk.Coins{}, c.Fee...)
		n[0], n[len(n)-1] = n[len(n)-1], n[0]
		c.Fee = n
		return true
	})
	// message list structure
	add("msgs:append", "msgs", "", false, func(c *doc) bool {
		k := kinds[r.Intn(len(kinds))]
		c.Msgs = append(c.Msgs, k.gen(r, signer))
		c.Kinds = append(c.Kinds, k.name)
		return true
	})
	add("msgs:duplicate", "msgs", "", false, func(c *doc) bool {
		i := r.Intn(len(c.Msgs))
		c.Msgs = append(c.Msgs, c.Msgs[i])
		c.Kinds = append(c.Kinds, c.Kinds[i])
		return true
	})
	if len(d.Msgs) > 1 {
		add("msgs:drop", "msgs", "", false, func(c *doc) bool {
			i := r.Intn(len(c.Msgs))
			c.Msgs = append(c.Msgs[:i:i], c.Msgs[i+1:]...)
			c.Kinds = append(c.Kinds[:i:i], c.Kinds[i+1:]...)
			return true
		})
		add("msgs:swap", "msgs", "", false, func(c *doc) bool {
			c.Msgs[0], c.Msgs[1] = c.Msgs[1], c.Msgs[0]
			c.Kinds[0], c.Kinds[1] = c.Kinds[1], c.Kinds[0]
			return true // a no-op swap (equal messages) is filtered by the byte comparison
		})
	}
	// every message field, and retyping
	for i, m := range d.Msgs {
		i := i
		k := kindByName(d.Kinds[i])
		for _, mu := range k.muts {
			mu := mu
			add("msg-field:"+k.name+"."+mu.field, "msg-field", k.name, false, func(c *doc) bool {
				n := cloneMsg(m)
				if !mu.apply(r, n) {
					return false
				}
				c.Msgs[i] = n
				return true
			})
		}
		if n, ok := retype(m); ok {
			add("msg-retype:"+k.name, "msg-retype", k.name, false, func(c *doc) bool { c.Msgs[i] = n; return true })
		}
	}
	// transaction fields the statement does not list by name. Its conclusion - a signature for one transaction can never
	// authorise a different one - covers them all the same: a rendering may refuse a document that carries one, but two
	// documents that differ in one may not share typed data, and a signature over one may not verify for the other.
	// (They stay out of the run-wide collision index, which is keyed by the listed fields.)
	add("fee_granter", "unlisted", "", true, func(c *doc) bool { c.Granter = accStr(genAddrBytes(r)); return true })
	add("fee_payer", "unlisted", "", true, func(c *doc) bool { c.Payer = accStr(genAddrBytes(r)); return true })
	add("timeout_height", "unlisted", "", true, func(c *doc) bool { c.Timeout = uint64(r.Range(1, 1_000_000)); return true })
	add("tip", "unlisted", "", true, func(c *doc) bool {
		c.Tip = &txtypes.Tip{Amount: genCoins(r, 1), Tipper: accStr(genAddrBytes(r))} // only the protobuf AuthInfo carries it
		return true
	})
	opt := func() []*codectypes.Any {
		switch r.Intn(3) {
		case 0:
			return []*codectypes.Any{mustAny(genSend(r, genAddrBytes(r)))}
		case 1:
			return []*codectypes.Any{{TypeUrl: "/verif.Unknown", Value: r.Bytes(1 + r.Intn(20))}}
		default:
			return []*codectypes.Any{{TypeUrl: "/ethermint.types.v1.ExtensionOptionDynamicFeeTx", Value: []byte{0x0a, 0x01, byte('1' + r.Intn(9))}}}
		}
	}
	add("non_critical_extension_options", "unlisted", "", true, func(c *doc) bool { c.NonCrit = opt(); return true }) // protobuf body only
	add("extension_options", "unlisted", "", true, func(c *doc) bool { c.ExtOpts = opt(); return true })              // protobuf body only
	return out
}

// ---------------------------------------------------------------------------------------------
// the encoder under test, wrapped

func rejectClass(err error) string {
	s := err.Error()
	for _, k := range []string{"extra data", "multiple signers", "exactly 1 signer", "invalid chain ID", "unsupported fields",
		"does contain any messages", "failed to get signers", "signer infos", "dataMismatch", "maximum number of duplicates"} {
		if strings.Contains(s, k) {
			return strings.ReplaceAll(k, " ", "-")
		}
	}
	if strings.Contains(s, "panic") {
		return "panic"
	}
	return "other"
}

// typedBytes = "\x19\x01" || domainSeparator || hashStruct(message) as produced by the repository.
func typedBytes(signBytes []byte) (raw []byte, err error) {
	defer func() {
		if r := recover(); r != nil {
			err = fmt.Errorf("encoder panic: %v", r)
		}
	}()
	return eip712.GetEIP712BytesForMsg(signBytes)
}

// hashIndex detects collisions between ANY two docs seen in the run (not only siblings).
type hashIndex struct {
	mu [64]sync.Mutex
	m  [64]map[[32]byte]idxEntry
}

type idxEntry struct {
	id   [16]byte
	from int32 // case index that produced the hash first
}

func newHashIndex() *hashIndex {
	h := &hashIndex{}
	for i := range h.m {
		h.m[i] = map[[32]byte]idxEntry{}
	}
	return h
}

// put returns (false, first case) when the hash is already known for a different identity.
func (h *hashIndex) put(raw []byte, id [16]byte, from int) (bool, int) {
	var k [32]byte
	copy(k[:], ethcrypto.Keccak256(raw))
	s := int(k[0]) % 64
	h.mu[s].Lock()
	defer h.mu[s].Unlock()
	if old, ok := h.m[s][k]; ok {
		return old.id == id, int(old.from)
	}
	h.m[s][k] = idxEntry{id, int32(from)}
	return true, from
}

type docEnv struct {
	run           *vh.Run
	enc           params.EncodingConfig
	idx           *hashIndex
	kindsCompared sync.Map // message kind -> true once a field perturbation of it was compared
}

func short(b []byte) string {
	if len(b) > 4096 {
		return fmt.Sprintf("%x...(%d bytes)", b[:4096], len(b))
	}
	return fmt.Sprintf("%x", b)
}

// txConfigBytes computes the sign bytes through the application's own sign-mode handlers (what the
// ante handler verifies against), to confirm the hand-built renderings are the real ones.
func (e *docEnv) txConfigBytes(d *doc, pub *ethsecp256k1.PubKey, mode signing.SignMode) (bz []byte, err error) {
	defer func() {
		if r := recover(); r != nil {
			err = fmt.Errorf("panic: %v", r)
		}
	}()
	txb := e.enc.TxConfig.NewTxBuilder()
	if err := txb.SetMsgs(d.Msgs...); err != nil {
		return nil, err
	}
	txb.SetMemo(d.Memo)
	txb.SetFeeAmount(d.Fee)
	txb.SetGasLimit(d.Gas)
	txb.SetTimeoutHeight(d.Timeout)
	if d.Granter != "" {
		txb.SetFeeGranter(sdk.MustAccAddressFromBech32(d.Granter))
	}
	if d.Payer != "" {
		txb.SetFeePayer(sdk.MustAccAddressFromBech32(d.Payer))
	}
	if err := txb.SetSignatures(signing.SignatureV2{PubKey: pub, Data: &signing.SingleSignatureData{SignMode: signing.SignMode_SIGN_MODE_DIRECT}, Sequence: d.Seq}); err != nil {
		return nil, err
	}
	sd := authsigning.SignerData{ChainID: d.ChainID, AccountNumber: d.AccNum, Sequence: d.Seq, PubKey: pub, Address: sdk.AccAddress(pub.Address()).String()}
	return authsigning.GetSignBytesAdapter(context.Background(), e.enc.TxConfig.SignModeHandler(), mode, sd, txb.GetTx())
}

// verify calls the repository's PubKey.VerifySignature; a panic escaping it (the EIP-712 fallback
// decoding a document it cannot handle) is counted and treated as "did not verify".
func (e *docEnv) verify(pk *ethsecp256k1.PubKey, msg, sig []byte) (ok bool) {
	defer func() {
		if r := recover(); r != nil {
			e.run.Count("doc.info-panic-escaping-VerifySignature", 1)
			e.run.Distinct("verify_panic_messages", trunc(fmt.Sprint(r), 160))
			ok = false
		}
	}()
	return pk.VerifySignature(msg, sig)
}

// renderProtoTwoSigners is a SIGN_MODE_DIRECT sign document of a transaction with TWO signer infos (a fee payer that is
// not the message signer): index 0 = the message signer (sequence d.Seq), index 1 = the fee payer (sequence paySeq).
func (d *doc) renderProtoTwoSigners(pub, payerPub *ethsecp256k1.PubKey, paySeq uint64, payerAccNum uint64, forPayer bool) []byte {
	anys := make([]*codectypes.Any, len(d.Msgs))
	for i, m := range d.Msgs {
		anys[i] = mustAny(m)
	}
	body := &txtypes.TxBody{Messages: anys, Memo: d.Memo, TimeoutHeight: d.Timeout, ExtensionOptions: d.ExtOpts, NonCriticalExtensionOptions: d.NonCrit}
	mode := &txtypes.ModeInfo{Sum: &txtypes.ModeInfo_Single_{Single: &txtypes.ModeInfo_Single{Mode: signing.SignMode_SIGN_MODE_DIRECT}}}
	ai := &txtypes.AuthInfo{
		SignerInfos: []*txtypes.SignerInfo{{PublicKey: mustAny(pub), ModeInfo: mode, Sequence: d.Seq}, {PublicKey: mustAny(payerPub), ModeInfo: mode, Sequence: paySeq}},
		Fee:         &txtypes.Fee{Amount: d.Fee, GasLimit: d.Gas, Payer: sdk.AccAddress(payerPub.Address()).String()},
	}
	bb, _ := body.Marshal()
	ab, _ := ai.Marshal()
	acc := d.AccNum
	if forPayer {
		acc = payerAccNum
	}
	bz, _ := (&txtypes.SignDoc{BodyBytes: bb, AuthInfoBytes: ab, ChainId: d.ChainID, AccountNumber: acc}).Marshal()
	return bz
}

// checkTwoSigners: documents of a fee-payer transaction. If the encoder renders such a document at all, the rendering
// the fee payer signs must still be injective in the fee payer's own sequence (and a signature over one must not verify
// for the other); a refusal to render is fine and counted.
func (e *docEnv) checkTwoSigners(i int, d *doc, pub *ethsecp256k1.PubKey, r *vh.RNG) {
	run := e.run
	payer := genPriv(r)
	payerPub := payer.PubKey().(*ethsecp256k1.PubKey)
	paySeq, payAcc := uint64(r.Intn(1000)), uint64(1+r.Intn(5000))
	a := d.renderProtoTwoSigners(pub, payerPub, paySeq, payAcc, true)
	b := d.renderProtoTwoSigners(pub, payerPub, paySeq+1+uint64(r.Intn(3)), payAcc, true)
	ra, ea := typedBytes(a)
	rb, eb := typedBytes(b)
	run.Eval(1)
	if ea != nil || eb != nil {
		run.Count("doc.two-signer-infos:rendering-refused", 1)
		run.Nontrivial("doc|two-signer-infos|refused")
		return
	}
	run.Count("doc.two-signer-infos:rendered", 1)
	run.Nontrivial("doc|two-signer-infos|rendered")
	label := fmt.Sprintf("doc/%d", i)
	if bytes.Equal(ra, rb) {
		viol(run, "eip712-hash-collision:fee-payer-sequence", label, map[string]any{"doc": d.describe(), "fee_payer_sequence_A": paySeq, "typed_bytes": short(ra),
			"note": "two SIGN_MODE_DIRECT sign documents of the fee payer that differ only in the fee payer's sequence have the same EIP-712 rendering"})
		return
	}
	if sig, err := payer.Sign(ra); err == nil && e.verify(payerPub, b, sig) {
		viol(run, "eip712-signature-verifies-for-other-doc:fee-payer-sequence", label, map[string]any{"doc": d.describe(), "fee_payer_sequence_A": paySeq})
	}
}

func (e *docEnv) checkDoc(i int) {
	run := e.run
	label := fmt.Sprintf("doc/%d", i)
	if !run.WantCase(label) {
		return
	}
	r := run.RNG("doc", i)
	priv := genPriv(r)
	pub := priv.PubKey().(*ethsecp256k1.PubKey)
	other := genOtherPub(r, pub)
	signer := pub.Address().Bytes()
	d := genDoc(r, signer)
	perts := perturbations(r, d, signer)
	if i%4 == 0 {
		e.checkTwoSigners(i, d, pub, r)
	}
	run.Eval(1)
	for _, k := range d.Kinds {
		run.Count("doc.msgs-of-kind:"+k, 1)
	}
	run.Count(fmt.Sprintf("doc.base-with-%d-msgs", len(d.Msgs)), 1)

	// are the hand-built renderings what the application's sign-mode handlers produce?
	if i%4 == 0 {
		for _, fm := range []struct {
			f    string
			mode signing.SignMode
		}{{fmtAmino, signing.SignMode_SIGN_MODE_LEGACY_AMINO_JSON}, {fmtProto, signing.SignMode_SIGN_MODE_DIRECT}} {
			mine, err1 := e.render(d, fm.f, pub)
			theirs, err2 := e.txConfigBytes(d, pub, fm.mode)
			switch {
			case err1 != nil || err2 != nil:
				run.Count("doc.txconfig-crosscheck-error:"+fm.f, 1)
			case bytes.Equal(mine, theirs):
				run.Count("doc.txconfig-signbytes-equal:"+fm.f, 1)
			default:
				run.Count("doc.txconfig-signbytes-differ:"+fm.f, 1)
				run.Distinct("txconfig_differ_kinds", fm.f+":"+strings.Join(d.Kinds, "+"))
			}
		}
	}

	var rawByFmt [3][]byte
	var aminoA []byte
	for fi, format := range formats {
		bzA, err := e.render(d, format, pub)
		if err != nil {
			run.Count("doc.base-render-failed:"+format, 1)
			continue
		}
		if format == fmtAminoTx && bytes.Equal(bzA, aminoA) {
			// the handler renders this document exactly like StdSignBytes: already covered above
			run.Count("doc.amino-x/tx-bytes-equal-amino(skipped)", 1)
			continue
		}
		if format == fmtAmino {
			aminoA = bzA
		}
		rawA, err := typedBytes(bzA)
		if err != nil {
			rc := rejectClass(err)
			run.Count("doc.base-rejected:"+format+":"+rc, 1)
			run.Distinct("reject_kinds", rc+":"+strings.Join(d.Kinds, "+"))
			if rc == "other" || rc == "panic" {
				run.Distinct("reject_other_messages", trunc(err.Error(), 160))
			}
			continue
		}
		rawByFmt[fi] = rawA
		run.Count("doc.base-accepted:"+format, 1)
		if ok, first := e.idx.put(rawA, d.identity(), i); !ok {
			viol(run, "eip712-hash-collision:global", label, map[string]any{"format": format, "doc": d.describe(), "typed_bytes": short(rawA), "first_seen_in_case": fmt.Sprintf("doc/%d", first),
				"note": "another document with a different identity (listed fields) produced the same typed-data bytes earlier in this run"})
		}
		sig712, err := priv.Sign(ethcrypto.Keccak256(rawA))
		if err != nil {
			panic(err)
		}
		sigDirect, err := priv.Sign(ethcrypto.Keccak256(bzA))
		if err != nil {
			panic(err)
		}
		// positive direction
		if !e.verify(pub, bzA, sig712) {
			viol(run, "eip712-signature-rejected-for-own-doc:"+format, label, map[string]any{"doc": d.describe(), "sign_bytes": short(bzA), "typed_bytes": short(rawA), "sig": short(sig712), "pub": short(pub.Key)})
		}
		if !e.verify(pub, bzA, sigDirect) {
			viol(run, "direct-signature-rejected-for-own-doc:"+format, label, map[string]any{"doc": d.describe(), "sign_bytes": short(bzA), "sig": short(sigDirect), "pub": short(pub.Key)})
		}
		run.Count("doc.positive-verified:"+format, 2)
		// another key
		if e.verify(other, bzA, sig712) || e.verify(other, bzA, sigDirect) {
			viol(run, "eip712-signature-verifies-under-other-key", label, map[string]any{"doc": d.describe(), "sig": short(sig712), "signer_pub": short(pub.Key), "other_pub": short(other.Key)})
		}
		run.Count("doc.other-key-rejected:"+format, 1)
		if i < 2 && fi == 0 {
			run.Sample(map[string]any{"sub": "signdoc", "case": label, "kinds": d.Kinds, "amino_sign_doc": trunc(string(bzA), 600),
				"typed_bytes": short(rawA), "perturbation_classes": classNames(perts)})
		}

		for pi, p := range perts {
			bzB, err := e.render(p.doc, format, pub)
			if err != nil {
				run.Count("doc.pert-render-failed:"+p.group, 1)
				continue
			}
			if bytes.Equal(bzA, bzB) {
				// unlisted amino-only fields do not exist in some renderings; anything else is a generator bug
				run.Count("doc.noop-perturbation:"+format+":"+p.class, 1)
				continue
			}
			witness := func(extra map[string]any) map[string]any {
				w := map[string]any{"format": format, "perturbation": p.class, "doc_A": d.describe(), "doc_B": p.doc.describe(),
					"sign_bytes_A": short(bzA), "sign_bytes_B": short(bzB), "typed_bytes_A": short(rawA), "pub": short(pub.Key)}
				for k, v := range extra {
					w[k] = v
				}
				return w
			}
			rawB, err := typedBytes(bzB)
			switch {
			case err != nil:
				rc := rejectClass(err)
				run.Count("doc.pert-rejected:"+format+":"+p.group+":"+rc, 1)
				if rc == "other" || rc == "panic" {
					run.Distinct("reject_other_messages", trunc(err.Error(), 160))
				}
			case bytes.Equal(rawA, rawB):
				viol(run, "eip712-hash-collision:"+p.class, label, witness(map[string]any{"typed_bytes_B": short(rawB)}))
			default:
				run.Count("doc.hash-differs:"+format+":"+p.group, 1)
				run.Nontrivial("doc|" + format + "|" + p.class)
				if p.group == "msg-field" {
					e.kindsCompared.Store(p.kind, true)
				}
				if !p.unlisted {
					if ok, first := e.idx.put(rawB, p.doc.identity(), i); !ok {
						viol(run, "eip712-hash-collision:global", label, witness(map[string]any{"typed_bytes_B": short(rawB), "first_seen_in_case": fmt.Sprintf("doc/%d", first),
							"note": "perturbed document B collides with a document of different identity seen earlier in this run"}))
					}
				}
			}
			if e.verify(pub, bzB, sig712) {
				viol(run, "eip712-signature-verifies-for-other-doc:"+p.class, label, witness(map[string]any{"sig_over_typed_A": short(sig712)}))
			} else {
				run.Count("doc.sig712-rejected-for-perturbed:"+format+":"+p.group, 1)
			}
			if (pi+i)%4 == 0 { // the plain-signature leg on a quarter of the perturbations (it costs a third of the work)
				if e.verify(pub, bzB, sigDirect) {
					viol(run, "direct-signature-verifies-for-other-doc:"+p.class, label, witness(map[string]any{"sig_over_sign_bytes_A": short(sigDirect)}))
				} else {
					run.Count("doc.sigdirect-rejected-for-perturbed:"+format, 1)
				}
			}
		}
	}
	// the same transaction rendered both ways has one EIP-712 rendering (by design: the protobuf
	// path re-renders as amino) — informational
	if rawByFmt[0] != nil && rawByFmt[1] != nil {
		if bytes.Equal(rawByFmt[0], rawByFmt[1]) {
			run.Count("doc.amino-and-proto-share-typed-data", 1)
		} else {
			run.Count("doc.amino-and-proto-typed-data-differ", 1)
		}
	}
	if rawByFmt[0] != nil && rawByFmt[2] != nil {
		if bytes.Equal(rawByFmt[0], rawByFmt[2]) {
			run.Count("doc.amino-and-amino-x/tx-share-typed-data", 1)
		} else {
			run.Count("doc.amino-and-amino-x/tx-typed-data-differ", 1)
		}
	}
}

// probes: fixed malformed documents, informational. A legacy-amino document whose MsgExec holds a
// nested Any that was never unpacked renders as "msgs":[null]; decoding it inside the EIP-712
// fallback of VerifySignature dereferences nil (the panic escapes VerifySignature).
func (e *docEnv) probes() {
	run := e.run
	if run.OnlyCase != "" {
		return
	}
	r := run.RNG("probe", 0)
	priv := genPriv(r)
	pub := priv.PubKey().(*ethsecp256k1.PubKey)
	inner := mustAny(genSend(r, genAddrBytes(r)))
	d := &doc{ChainID: vh.ChainID, AccNum: 1, Seq: 1, Fee: sdk.Coins{}, Gas: 1, Kinds: []string{"authz.MsgExec"},
		Msgs: []sdk.Msg{&authztypes.MsgExec{Grantee: accStr(pub.Address()), Msgs: []*codectypes.Any{{TypeUrl: inner.TypeUrl, Value: inner.Value}}}}}
	bz, err := e.render(d, fmtAmino, pub)
	if err != nil {
		run.Count("probe.null-nested-any:not-renderable", 1)
		return
	}
	before := run.Get("doc.info-panic-escaping-VerifySignature")
	ok := e.verify(pub, bz, make([]byte, 65))
	switch {
	case run.Get("doc.info-panic-escaping-VerifySignature") > before:
		run.Count("probe.null-nested-any:VerifySignature-panics(info)", 1)
		run.Set("probe_null_nested_any_sign_doc", trunc(string(bz), 400))
	case ok:
		viol(run, "degenerate-signature-verifies:zero65-on-malformed-doc", "probe/0", map[string]any{"sign_doc": string(bz)})
	default:
		run.Count("probe.null-nested-any:rejected-without-panic", 1)
	}
}

func classNames(ps []pert) []string {
	out := make([]string, len(ps))
	for i, p := range ps {
		out[i] = p.class
	}
	return out
}

func trunc(s string, n int) string {
	if len(s) > n {
		return s[:n] + "..."
	}
	return s
}
