package c20

import (
	"bytes"
	"encoding/hex"
	"encoding/json"
	"fmt"
	"math"
	"os"
	"os/exec"
	"runtime"
	"strconv"
	"strings"
	"sync"
	"syscall"
	"time"

	"github.com/ethereum/go-ethereum/common/hexutil"

	evmtypes "github.com/EscanBE/evermint/v12/x/evm/types"

	"verifharness/vh"
)

// job is one unit of child-process work.
type job struct {
	Mode     string
	Batch    int
	Count    int
	Label    string
	Watchdog time.Duration // wall-clock bound for one child run (generous; see hang handling)
	Probe    bool          // hang probe: short watchdog, a stuck child is the expected way to fail
}

// RunD1 runs the deterministic single-node part of C20: hostile-input driver, isolation
// metamorphic test, consensus-parameter corners - everything in child processes.
func RunD1(run *vh.Run) {
	if os.Getenv(ChildEnv) != "" { // a combined main that forgot ChildMain(): never recurse
		ChildMain()
		return
	}
	var jobs []job
	// (1) hostile inputs
	nInputs := run.N(20_000, 1_000_000)
	per := 1000
	if run.Thorough() {
		per = 5000
	}
	if nInputs < per {
		per = nInputs
	}
	nb := (nInputs + per - 1) / per
	for b := 0; b < nb; b++ {
		jobs = append(jobs, job{Mode: "hostile", Batch: b, Count: per, Label: fmt.Sprintf("hostile-%d", b), Watchdog: 5*time.Minute + time.Duration(per)*100*time.Millisecond})
	}
	// hang probe: inputs that can only be offered with a process-level bound
	jobs = append(jobs, job{Mode: "hangprobe", Batch: 0, Count: len(hangProbeClasses), Label: "hangprobe-0", Watchdog: 25 * time.Second, Probe: true})
	// (3) isolation pairs
	nPairs := run.N(150, 5000)
	perIso := 12
	if run.Thorough() {
		perIso = 125
	}
	if nPairs < perIso {
		perIso = nPairs
	}
	for b := 0; b*perIso < nPairs; b++ {
		n := perIso
		if (b+1)*perIso > nPairs {
			n = nPairs - b*perIso
		}
		jobs = append(jobs, job{Mode: "iso", Batch: b, Count: n, Label: fmt.Sprintf("iso-%d", b), Watchdog: 5*time.Minute + time.Duration(n)*3*time.Second})
	}
	// (2) consensus-parameter corners: one child per 8 corners
	nc := len(corners())
	for b := 0; b*8 < nc; b++ {
		jobs = append(jobs, job{Mode: "corner", Batch: b, Count: 8, Label: fmt.Sprintf("corner-%d", b), Watchdog: 5 * time.Minute})
	}

	workers := runtime.NumCPU() - 2
	if workers > 14 {
		workers = 14
	}
	if workers < 2 {
		workers = 2
	}
	var wg sync.WaitGroup
	sem := make(chan struct{}, workers)
	for _, j := range jobs {
		if !run.WantCase(j.Label) {
			continue
		}
		j := j
		wg.Add(1)
		go func() {
			defer wg.Done()
			sem <- struct{}{}
			defer func() { <-sem }()
			runJob(run, j)
		}()
	}
	wg.Wait()

	run.Rule = "(1) Engine E8 in child processes (an escaped panic or fatal error of the real application kills only the child; the parent reports the last input): per input a mutation class and an entry point among CheckTx(New/Recheck), Simulate, PrepareProposal, ProcessProposal, FinalizeBlock (hostile blocks of 1-5 inputs, one result per tx demanded, health transfer in a following block must succeed) and Query. Classes: random / tiny / huge bytes, bit flips, truncations and splices of valid txs; Ethereum envelopes with payload truncated / garbled after a valid RLP prefix, wrong type byte, empty, huge, hand-encoded RLP (oversized and non-canonical integers, lists for strings, missing / extra fields, negative-looking gas caps), numbers up to 2^300, fees near 2^256, bad / foreign-prefix / empty / foreign From, wrong chain id, unprotected, hostile signature values, extension-option / fee / signature / multi-message surgery, type-URL swaps; Cosmos txs (22 hand-written message kinds plus EVERY registered Msg type instantiated by reflection with boundary values, correctly signed), type-URL swaps, nested Any bombs (depth 2-60), duplicated / unknown / wrong-wire-type protobuf fields, huge and negative numbers, bad addresses, signature / sign-mode / chain-id surgery, embedded MsgEthereumTx; the full enumeration custom precompile x selector x {valid, selector-only, truncated, overlong, garbage, misaligned-offset, dirty-words, <4 bytes, unknown selector} x {direct, puppet CALL/DELEGATECALL/STATICCALL/CALLCODE} x {deliver, CheckTx, Simulate, EthCall}; hostile queries (random paths, garbage on every evermint gRPC route and 20 SDK routes, heights -1/MinInt64/MaxInt64/future, malformed / huge-gas / negative-looking / conflicting EthCall and EstimateGas JSON, TraceTx / TraceBlock with unknown tracers, JS that throws, JS that loops under the trace deadline, timeout strings, hostile heights / hashes / proposers, non-matching predecessors, malformed messages, garbage tracer configs). A separate hang probe offers JS tracer source that loops while the tracer object is constructed. (2) 6-block histories on MaxGas in {-1,0,1,2,21000,1e6,MaxInt64} x MaxBytes in {1,21MiB,100MiB,-1}, genesis base fees 2^63-1 .. 2^200, base fee 0, min gas price 2^70. (3) Isolation pairs: block B (3-6 valid txs of distinct senders + one poison of a dedicated sender, 20 poison classes) vs B' (poison replaced by a benign tx of the same sender, lane, type, gas limit, fee) on two chains from the same genesis: every other tx result equal (code, codespace, log, data, gas wanted / used, all events; receipt fields cumulativeGasUsed / txIdx / logIdx, which are functions of the predecessors by definition, blanked only when they are the sole difference). Non-trivial = distinct (entry point x mutation class x result class), (poison class x poison result x benign result x position), (corner class x block kind)."
	run.Assumptions = append(run.Assumptions,
		"BaseApp's own recover() in runTx / PrepareProposal / ProcessProposal / Query is part of the system under test: a panic recovered there and returned as an error satisfies the property",
		"hang verdicts use a generous wall-clock watchdog plus two observations of an unchanged input index and the child's CPU time; the watchdog firing alone is reported as inconclusive",
		"isolation: the other senders never touch state of the poison sender (own contracts, own account), so every difference is caused by the poison's failure itself")
	if run.OnlyCase == "" {
		run.Floor("hostile inputs executed", run.Get("inputs_total"), int64(run.N(14_000, 700_000)))
		run.Floor("distinct (entry point x mutation class)", int64(run.DistinctN("entry_x_class")), 300)
		run.Floor("mutation classes", int64(run.DistinctN("mutation_class")), 70)
		run.Floor("precompile enumeration cells executed", int64(run.DistinctN("cpc_cells")), int64(run.N(2500, 5000)))
		run.Floor("FinalizeBlock calls with hostile txs", run.Get("finalize_block_calls"), int64(run.N(1200, 60_000)))
		run.Floor("distinct error-code classes", int64(run.DistinctN("error_code")), 25)
		run.Floor("isolation pairs", run.Get("isolation_pairs"), int64(run.N(70, 2400)))
		run.Floor("other txs compared after the poison", run.Get("isolation_other_tx_after_poison_compared"), int64(run.N(100, 3500)))
		run.Floor("poison result classes", int64(run.DistinctN("poison_result")), 12)
		run.Floor("corner histories", run.Get("corner_histories"), 18)
		run.Floor("child batches completed", run.Get("child_batches_completed"), int64(run.N(15, 150)))
	}
}

func procCPU(pid int) int64 {
	b, err := os.ReadFile(fmt.Sprintf("/proc/%d/stat", pid))
	if err != nil {
		return -1
	}
	s := string(b)
	i := strings.LastIndexByte(s, ')')
	if i < 0 {
		return -1
	}
	f := strings.Fields(s[i+1:])
	if len(f) < 14 {
		return -1
	}
	ut, _ := strconv.ParseInt(f[11], 10, 64)
	st, _ := strconv.ParseInt(f[12], 10, 64)
	return ut + st // clock ticks
}

func tail(path string, n int) string {
	b, err := os.ReadFile(path)
	if err != nil {
		return ""
	}
	if len(b) > n {
		b = b[len(b)-n:]
	}
	return string(b)
}

func head(path string, n int) string {
	b, err := os.ReadFile(path)
	if err != nil {
		return ""
	}
	if len(b) > n {
		b = b[:n]
	}
	return string(b)
}

// panicExcerpt extracts the panic / fatal error message and the first goroutine from a Go crash dump.
func panicExcerpt(out string) string {
	for _, marker := range []string{"panic: ", "fatal error: ", "runtime: ", "SIGQUIT"} {
		if i := strings.Index(out, marker); i >= 0 {
			e := out[i:]
			if len(e) > 6000 {
				e = e[:6000]
			}
			return e
		}
	}
	if len(out) > 3000 {
		return out[len(out)-3000:]
	}
	return out
}

// interesting picks the goroutines of a dump that sit in application / tracer code.
func interestingGoroutines(dump string) string {
	var keep []string
	for _, g := range strings.Split(dump, "\n\n") {
		if strings.Contains(g, "goja") || strings.Contains(g, "tracers") || strings.Contains(g, "evermint") || strings.Contains(g, "baseapp") {
			if len(g) > 5000 {
				g = g[:5000]
			}
			keep = append(keep, g)
		}
		if len(keep) >= 3 {
			break
		}
	}
	return strings.Join(keep, "\n\n")
}

func runJob(run *vh.Run, j job) {
	start := 0
	for attempt := 0; attempt < 10 && start < j.Count; attempt++ {
		next, finished := runChild(run, j, start)
		if finished {
			return
		}
		start = next
	}
	if start < j.Count {
		run.Count("inputs_skipped_after_repeated_child_deaths", j.Count-start)
	}
}

// runChild runs one child from index start. It returns finished=true when the child completed the
// batch, else the index to resume from (the input after the one that killed / blocked the child).
func runChild(run *vh.Run, j job, start int) (next int, finished bool) {
	spec := fmt.Sprintf("%s:%d:%d:%d", j.Mode, j.Batch, start, j.Count)
	outFile := errPath(j.Mode, j.Batch, start)
	sumFile := sumPath(j.Mode, j.Batch, start)
	cur := curPath(j.Mode, j.Batch)
	_ = os.Remove(sumFile)
	_ = os.Remove(cur)
	f, err := os.Create(outFile)
	if err != nil {
		run.Inconclusive("cannot create child output file: " + err.Error())
		return j.Count, true
	}
	cmd := exec.Command(os.Args[0], run.Tier)
	cmd.Env = append(os.Environ(), ChildEnv+"="+spec, "GOTRACEBACK=crash", "VERIF_SCRATCH="+scratch())
	cmd.Stdout, cmd.Stderr = f, f
	if err := cmd.Start(); err != nil {
		f.Close()
		run.Inconclusive("cannot start child: " + err.Error())
		return j.Count, true
	}
	done := make(chan error, 1)
	go func() { done <- cmd.Wait() }()
	run.Count("child_processes_started", 1)
	var waitErr error
	hung := false
	var hangInfo map[string]any
	// Progress monitor. The child writes the input it is about to offer into the cur file. A child
	// that stays on ONE input for stall wall seconds AND (burned at least stall/2 CPU seconds on it
	// [spinning] or practically none [blocked]) hangs on that input. The overall watchdog alone only
	// ever yields "inconclusive".
	stall := 75 * time.Second
	if j.Probe {
		stall = 20 * time.Second
	}
	if v, err := strconv.Atoi(os.Getenv("VERIF_C20_STALL_S")); err == nil && v > 0 {
		stall = time.Duration(v) * time.Second
	}
	ticksPerSec := int64(100)
	deadline := time.Now().Add(j.Watchdog)
	lastIdx, lastOK := -1, false
	lastChange := time.Now()
	cpuAtChange := procCPU(cmd.Process.Pid)
	tick := time.NewTicker(2 * time.Second)
	defer tick.Stop()
	exited := false
	for !exited && !hung {
		select {
		case waitErr = <-done:
			exited = true
		case <-tick.C:
			i, e, c, _, ok := readCur(cur)
			cpu := procCPU(cmd.Process.Pid)
			if ok != lastOK || i != lastIdx {
				lastIdx, lastOK, lastChange, cpuAtChange = i, ok, time.Now(), cpu
			} else if ok && time.Since(lastChange) >= stall {
				burned := (cpu - cpuAtChange) / ticksPerSec
				spinning := burned >= int64(stall.Seconds())/2
				blocked := burned <= 2
				if spinning || blocked {
					hung = true
					hangInfo = map[string]any{"input_index": i, "entry": e, "class": c, "wall_seconds_on_this_input": int(time.Since(lastChange).Seconds()),
						"cpu_seconds_on_this_input": burned, "spinning": spinning, "blocked": blocked, "stall_threshold_s": stall.Seconds()}
				}
			}
			if !hung && time.Now().After(deadline) {
				_ = cmd.Process.Signal(syscall.SIGQUIT)
				select {
				case waitErr = <-done:
				case <-time.After(20 * time.Second):
					_ = cmd.Process.Kill()
					waitErr = <-done
				}
				run.Inconclusive(fmt.Sprintf("watchdog fired for child %s while it was still making progress", spec))
				f.Close()
				return j.Count, true
			}
		}
	}
	if hung {
		_ = cmd.Process.Signal(syscall.SIGQUIT) // goroutine dump into the output FILE
		select {
		case waitErr = <-done:
		case <-time.After(20 * time.Second):
			_ = cmd.Process.Kill()
			waitErr = <-done
		}
	}
	f.Close()
	// completed?
	if b, err := os.ReadFile(sumFile); err == nil && !hung {
		var s summary
		if json.Unmarshal(b, &s) == nil && s.Done {
			merge(run, j, &s)
			run.Count("child_batches_completed", 1)
			_ = os.Remove(outFile)
			_ = os.Remove(sumFile)
			return j.Count, true
		}
	}
	// the child died (or hangs): the cur file names the input that was being processed
	idx, entry, class, input, ok := readCur(cur)
	out := tail(outFile, 400_000)
	wit := map[string]any{"child": spec, "exit": fmt.Sprint(waitErr), "batch": j.Batch, "replay": "VERIF_CASE=" + j.Label}
	if ok {
		wit["input_index"], wit["entry_point"], wit["mutation_class"] = idx, entry, class
		if len(input) > 40_000 {
			wit["input_hex"] = hex.EncodeToString(input[:40_000]) + fmt.Sprintf("…(%d bytes)", len(input))
		} else {
			wit["input_hex"] = hex.EncodeToString(input)
		}
		if strings.HasPrefix(entry, "Query") {
			wit["input_format"] = "path\\nheight\\nprove\\n<request bytes>"
		} else if strings.Contains(class, ",") {
			wit["input_format"] = "sequence of (uint32 big-endian length, tx bytes)"
		}
	}
	firstClass := class
	if i := strings.IndexByte(firstClass, ','); i > 0 {
		firstClass = firstClass[:i]
	}
	firstClass = evidenceClass(firstClass)
	if !ok {
		entry, firstClass = "setup", "none"
	}
	if hung {
		for k, v := range hangInfo {
			wit[k] = v
		}
		wit["goroutine_dump_excerpt"] = interestingGoroutines(out)
		wit["goroutine_dump_head"] = head(outFile, 3000)
		if known := unboundedGasLoop(entry, input, out, wit); known != "" {
			// the same call site and input characteristic as the recorded finding, whatever generator class produced it
			wit["generated_as_class"] = firstClass
			firstClass = known
		}
		run.Violation("hang:"+entry+":"+firstClass, j.Label, wit)
		run.Count("child_hangs", 1)
	} else {
		wit["crash_output"] = panicExcerpt(out)
		run.Violation("process-crash:"+entry+":"+firstClass, j.Label, wit)
		run.Count("child_crashes", 1)
	}
	if !ok {
		return j.Count, true // died during setup: nothing to resume
	}
	return idx + 1, false
}

// unboundedGasLoop recognises, from the request itself and the goroutine dump, a hanging EthCall / EstimateGas query
// that spins in the EVM interpreter with an effectively unbounded gas allowance (>= 10^10 gas: far beyond what the
// stall threshold can burn). It returns the class of the corresponding recorded finding, or "".
func unboundedGasLoop(entry string, input []byte, dump string, wit map[string]any) string {
	if entry != "Query" || !strings.Contains(dump, "vm.(*EVMInterpreter).Run") {
		return ""
	}
	if b, _ := wit["blocked"].(bool); b {
		return ""
	}
	parts := bytes.SplitN(input, []byte("\n"), 4)
	if len(parts) != 4 {
		return ""
	}
	path := string(parts[0])
	var class, frame string
	switch path {
	case "/ethermint.evm.v1.Query/EthCall":
		class, frame = "query-ethcall-unbounded-gas-loop", "keeper.Keeper.EthCall"
	case "/ethermint.evm.v1.Query/EstimateGas":
		class, frame = "query-estimategas-unbounded-gas-loop", "keeper.Keeper.EstimateGas"
	default:
		return ""
	}
	if !strings.Contains(dump, frame) {
		return ""
	}
	var req evmtypes.EthCallRequest
	if err := req.Unmarshal(parts[3]); err != nil {
		return ""
	}
	var args struct {
		Gas *hexutil.Uint64 `json:"gas"`
	}
	if err := json.Unmarshal(req.Args, &args); err != nil {
		return ""
	}
	// the gas allowance the keeper derives from the request (x/evm/keeper/grpc_query.go): EthCall runs with the request's
	// gas, absent = unbounded, capped by a non-zero gas cap; EstimateGas starts its search at the request's gas when that
	// is at least 21000, otherwise at the block gas limit - which the hostile worlds leave unlimited (MaxGas -1), so at
	// the gas cap - and caps it by a non-zero gas cap
	allowance := uint64(math.MaxUint64)
	if args.Gas != nil {
		allowance = uint64(*args.Gas)
	}
	if class == "query-estimategas-unbounded-gas-loop" && (args.Gas == nil || uint64(*args.Gas) < 21000) {
		allowance = req.GasCap
	}
	if req.GasCap != 0 && allowance > req.GasCap {
		allowance = req.GasCap
	}
	wit["gas_allowance_of_the_request"] = allowance
	if allowance < 10_000_000_000 {
		return ""
	}
	return class
}

// evidenceClass maps a full cpc class (with method and route) to the class used in signatures.
func evidenceClass(class string) string {
	if !strings.HasPrefix(class, "cpc-") {
		return class
	}
	// cpc-<contract>.<method>-<mutation>-<route>
	rest := class[4:]
	dot := strings.IndexByte(rest, '.')
	if dot < 0 {
		return class
	}
	contract := rest[:dot]
	for _, mu := range append(append([]string{}, cpcMutations...), "short-input", "unknown-selector") {
		if strings.Contains(rest[dot:], "-"+mu+"-") {
			return "cpc-" + contract + "-" + mu
		}
	}
	return "cpc-" + contract
}

func merge(run *vh.Run, j job, s *summary) {
	run.Eval(int(s.Evals))
	for k, v := range s.Counters {
		run.Count(k, int(v))
	}
	for k, v := range s.Maxes {
		run.Max(k, v)
	}
	for set, keys := range s.Sets {
		for _, k := range keys {
			run.Distinct(set, k)
		}
	}
	for _, k := range s.Nontrivial {
		run.Nontrivial(k)
	}
	for _, v := range s.Violations {
		run.Violation(v.Sig, j.Label, v.Detail)
	}
	for _, smp := range s.Samples {
		run.Sample(smp)
	}
	for _, n := range s.Notes {
		run.Distinct("child_notes", trunc(n, 2200))
	}
}
