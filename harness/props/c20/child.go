// Package c20 holds the deterministic (single-node) monitors of property C20: no user input
// can crash a node or halt block production.
//
//	(1) hostile-input driver (engine E8) over CheckTx, PrepareProposal, ProcessProposal,
//	    FinalizeBlock, Query and Simulate of the real application, in child processes;
//	(2) short histories on every valid consensus-parameter corner (begin/end block never fails);
//	(3) isolation metamorphic test (a poisonous transaction never changes the others' results).
//
// The live-stack part (race detector, schedules, liveness) lives in props/live.
package c20

import (
	"bufio"
	"encoding/binary"
	"encoding/json"
	"fmt"
	"os"
	"path/filepath"
	"runtime/debug"
	"strconv"
	"strings"
	"sync"
	"syscall"

	"verifharness/vh"
)

// ChildEnv selects child mode: "<mode>:<batch>:<start>:<count>".
const ChildEnv = "VERIF_C20_CHILD"

// childViolation is a violation found inside a child, forwarded by the parent.
type childViolation struct {
	Sig    string `json:"sig"`
	Detail any    `json:"detail"`
}

// summary is what a child hands back to the parent (written atomically at the very end).
type summary struct {
	Mode       string              `json:"mode"`
	Batch      int                 `json:"batch"`
	Start      int                 `json:"start"`
	Done       bool                `json:"done"`
	Evals      int64               `json:"evals"`
	Counters   map[string]int64    `json:"counters"`
	Maxes      map[string]int64    `json:"maxes"`
	Sets       map[string][]string `json:"sets"`
	Nontrivial []string            `json:"nontrivial"`
	Violations []childViolation    `json:"violations"`
	Samples    []any               `json:"samples"`
	Notes      []string            `json:"notes"`
}

// rec collects observations inside a child (thread-safe).
type rec struct {
	mu    sync.Mutex
	s     summary
	sets  map[string]map[string]struct{}
	nontr map[string]struct{}
	sigN  map[string]int
}

func newRec(mode string, batch, start int) *rec {
	return &rec{s: summary{Mode: mode, Batch: batch, Start: start, Counters: map[string]int64{}, Maxes: map[string]int64{}},
		sets: map[string]map[string]struct{}{}, nontr: map[string]struct{}{}, sigN: map[string]int{}}
}

func (r *rec) Eval(n int)               { r.mu.Lock(); r.s.Evals += int64(n); r.mu.Unlock() }
func (r *rec) Count(name string, n int) { r.mu.Lock(); r.s.Counters[name] += int64(n); r.mu.Unlock() }
func (r *rec) Nontrivial(key string)    { r.mu.Lock(); r.nontr[key] = struct{}{}; r.mu.Unlock() }
func (r *rec) Note(format string, a ...any) {
	r.mu.Lock()
	if len(r.s.Notes) < 20 {
		r.s.Notes = append(r.s.Notes, fmt.Sprintf(format, a...))
	}
	r.mu.Unlock()
}
func (r *rec) Max(name string, v int64) {
	r.mu.Lock()
	if v > r.s.Maxes[name] {
		r.s.Maxes[name] = v
	}
	r.mu.Unlock()
}
func (r *rec) Distinct(set, key string) {
	r.mu.Lock()
	m := r.sets[set]
	if m == nil {
		m = map[string]struct{}{}
		r.sets[set] = m
	}
	m[key] = struct{}{}
	r.mu.Unlock()
}
func (r *rec) Sample(v any) {
	r.mu.Lock()
	if len(r.s.Samples) < 3 {
		r.s.Samples = append(r.s.Samples, v)
	}
	r.mu.Unlock()
}

// Violation keeps at most 4 witnesses per signature per child.
func (r *rec) Violation(sig string, detail any) {
	r.mu.Lock()
	r.sigN[sig]++
	if r.sigN[sig] <= 4 {
		r.s.Violations = append(r.s.Violations, childViolation{Sig: sig, Detail: detail})
	}
	r.s.Counters["violation:"+sig]++
	r.mu.Unlock()
}

func (r *rec) write(path string) {
	r.mu.Lock()
	defer r.mu.Unlock()
	r.s.Done = true
	r.s.Sets = map[string][]string{}
	for k, m := range r.sets {
		for s := range m {
			r.s.Sets[k] = append(r.s.Sets[k], s)
		}
	}
	r.s.Nontrivial = r.s.Nontrivial[:0]
	for k := range r.nontr {
		r.s.Nontrivial = append(r.s.Nontrivial, k)
	}
	b, _ := json.Marshal(&r.s)
	tmp := path + ".tmp"
	if err := os.WriteFile(tmp, b, 0o644); err == nil {
		_ = os.Rename(tmp, path)
	}
}

func scratch() string {
	d := os.Getenv("VERIF_SCRATCH")
	if d == "" {
		d = filepath.Join(vh.Root(), ".build", "scratch", "c20-manual")
	}
	_ = os.MkdirAll(d, 0o755)
	return d
}

func curPath(mode string, batch int) string {
	name := fmt.Sprintf("c20-cur-%d.bin", batch)
	if mode != "hostile" {
		name = fmt.Sprintf("c20-cur-%s-%d.bin", mode, batch)
	}
	return filepath.Join(scratch(), name)
}
func logPath(mode string, batch int) string {
	return filepath.Join(scratch(), fmt.Sprintf("c20-log-%s-%d.txt", mode, batch))
}
func sumPath(mode string, batch, start int) string {
	return filepath.Join(scratch(), fmt.Sprintf("c20-sum-%s-%d-%d.json", mode, batch, start))
}
func errPath(mode string, batch, start int) string {
	return filepath.Join(scratch(), fmt.Sprintf("c20-out-%s-%d-%d.txt", mode, batch, start))
}

// tracker writes the input about to be offered to the application BEFORE the call, so that
// the parent finds it when the process dies, and appends one line per call to the log.
type tracker struct {
	cur  string
	logf *os.File
	logw *bufio.Writer
	n    int
}

func newTracker(mode string, batch int) *tracker {
	t := &tracker{cur: curPath(mode, batch)}
	f, err := os.OpenFile(logPath(mode, batch), os.O_CREATE|os.O_WRONLY|os.O_APPEND, 0o644)
	if err == nil {
		t.logf, t.logw = f, bufio.NewWriterSize(f, 1<<16)
	}
	return t
}

// curHeader layout: magic "C20\n", then one text line "idx entry class\n", then the raw input.
func (t *tracker) before(idx int, entry, class string, input []byte) {
	hdr := fmt.Sprintf("C20\n%d %s %s\n", idx, entry, class)
	buf := make([]byte, 0, len(hdr)+len(input))
	buf = append(buf, hdr...)
	buf = append(buf, input...)
	// write in place (no rename): one small write per call keeps 10^6-input runs cheap
	_ = os.WriteFile(t.cur, buf, 0o644)
}

func (t *tracker) after(idx int, entry, class, result string) {
	if t.logw == nil {
		return
	}
	fmt.Fprintf(t.logw, "%d %s %s %s\n", idx, entry, class, result)
	t.n++
	if t.n%64 == 0 {
		_ = t.logw.Flush()
	}
}

func (t *tracker) close() {
	if t.logw != nil {
		_ = t.logw.Flush()
		_ = t.logf.Close()
	}
}

// readCur parses a cur file: index, entry point, mutation class, raw input.
func readCur(path string) (idx int, entry, class string, input []byte, ok bool) {
	b, err := os.ReadFile(path)
	if err != nil || !strings.HasPrefix(string(b), "C20\n") {
		return 0, "", "", nil, false
	}
	rest := b[4:]
	nl := strings.IndexByte(string(rest), '\n')
	if nl < 0 {
		return 0, "", "", nil, false
	}
	f := strings.Fields(string(rest[:nl]))
	if len(f) != 3 {
		return 0, "", "", nil, false
	}
	idx, _ = strconv.Atoi(f[0])
	return idx, f[1], f[2], rest[nl+1:], true
}

// ChildMain must be the first statement of the monitor's main(): in a child process it runs the
// requested batch and exits; in the parent it returns immediately.
func ChildMain() {
	spec := os.Getenv(ChildEnv)
	if spec == "" {
		return
	}
	f := strings.Split(spec, ":")
	if len(f) != 4 {
		fmt.Fprintln(os.Stderr, "c20 child: bad spec", spec)
		os.Exit(64)
	}
	mode := f[0]
	batch, _ := strconv.Atoi(f[1])
	start, _ := strconv.Atoi(f[2])
	count, _ := strconv.Atoi(f[3])
	// a fatal runtime error must produce the full goroutine dump on stderr (a file)
	// "crash": on SIGQUIT every thread prints the stack of the goroutine it is running (with "all" a goroutine running on
	// another thread shows as "stack unavailable", which on a loaded machine hides the very frame that spins); no core file
	_ = syscall.Setrlimit(syscall.RLIMIT_CORE, &syscall.Rlimit{Cur: 0, Max: 0})
	debug.SetTraceback("crash")
	seed := uint64(0)
	if s := os.Getenv("VERIF_SEED"); s != "" {
		if v, err := strconv.ParseUint(s, 10, 64); err == nil {
			seed = v
		} else if v, err := strconv.ParseInt(s, 10, 64); err == nil {
			seed = uint64(v)
		}
	}
	r := newRec(mode, batch, start)
	switch mode {
	case "hostile":
		childHostile(r, seed, batch, start, count, false)
	case "hangprobe":
		childHostile(r, seed, batch, start, count, true)
	case "iso":
		childIsolation(r, seed, batch, start, count)
	case "corner":
		childCorners(r, seed, batch, start, count)
	default:
		fmt.Fprintln(os.Stderr, "c20 child: unknown mode", mode)
		os.Exit(64)
	}
	r.write(sumPath(mode, batch, start))
	os.Stdout.Sync()
	os.Exit(0)
}

func derive(seed uint64, label string, idx int) *vh.RNG {
	return vh.Derive(seed, "C20/"+label, uint64(idx))
}

func u64le(v uint64) []byte { var b [8]byte; binary.LittleEndian.PutUint64(b[:], v); return b[:] }
