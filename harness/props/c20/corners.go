package c20

import (
	"fmt"
	"math"
	"math/big"

	sdkmath "cosmossdk.io/math"
	sdk "github.com/cosmos/cosmos-sdk/types"
	banktypes "github.com/cosmos/cosmos-sdk/x/bank/types"
	stakingtypes "github.com/cosmos/cosmos-sdk/x/staking/types"

	"verifharness/vh"
)

// Consensus-parameter corners: short histories with a few Ethereum and Cosmos transactions per
// block on every valid corner of Block.MaxGas / Block.MaxBytes and on very large base fees.
// FinalizeBlock (begin block, transactions, end block) must never return an error or panic.

type corner struct {
	Name     string
	MaxGas   int64
	MaxBytes int64
	BaseFee  *big.Int
	MinPrice string
}

func maxGasClass(g int64) string {
	switch {
	case g == -1:
		return "unlimited-gas"
	case g == 0 || g == 1:
		return "zero-gas-target" // MaxGas / elasticity multiplier 2 == 0
	case g == 2:
		return "gas-target-one"
	case g == 21000:
		return "one-transfer-block"
	case g == math.MaxInt64:
		return "maxint64-gas"
	default:
		return "finite-gas"
	}
}

func corners() []corner {
	var out []corner
	bf := big.NewInt(1_000_000_000)
	for _, mg := range []int64{-1, 0, 1, 2, 21000, 1_000_000, math.MaxInt64} {
		for _, mb := range []int64{1, 22020096, 104857600, -1} {
			out = append(out, corner{Name: fmt.Sprintf("maxgas=%d/maxbytes=%d", mg, mb), MaxGas: mg, MaxBytes: mb, BaseFee: bf})
		}
	}
	// very large base fees (the fee-market end blocker reports the base fee as an int64 gauge)
	for _, b := range []*big.Int{new(big.Int).Sub(pow2(63), big.NewInt(1)), pow2(63), pow2(64), pow2(128), pow2(200)} {
		out = append(out, corner{Name: "basefee=2^" + fmt.Sprint(b.BitLen()-1) + fmt.Sprintf("(bitlen %d)", b.BitLen()), MaxGas: -1, MaxBytes: 22020096, BaseFee: b})
		out = append(out, corner{Name: "basefee=2^" + fmt.Sprint(b.BitLen()-1) + fmt.Sprintf("(bitlen %d)/maxgas=1e6", b.BitLen()), MaxGas: 1_000_000, MaxBytes: 22020096, BaseFee: b})
	}
	// base fee 0 and a huge minimum gas price floor
	out = append(out, corner{Name: "basefee=0", MaxGas: 1_000_000, MaxBytes: 22020096, BaseFee: big.NewInt(0)})
	out = append(out, corner{Name: "min-gas-price=2^70", MaxGas: 1_000_000, MaxBytes: 22020096, BaseFee: bf, MinPrice: pow2(70).String()})
	return out
}

func (c corner) class() string {
	if c.BaseFee.BitLen() > 63 || c.MinPrice != "" { // the minimum gas price is a floor of the base fee
		return "base-fee-above-int64"
	}
	return maxGasClass(c.MaxGas)
}

func childCorners(rec *rec, seed uint64, batch, start, count int) {
	trk := newTracker("corner", batch)
	defer trk.close()
	all := corners()
	for i := start; i < count; i++ {
		idx := batch*8 + i // the parent schedules one child per 8 corners
		if idx >= len(all) {
			break
		}
		runCorner(rec, trk, seed, idx, all[idx])
	}
}

func runCorner(rec *rec, trk *tracker, seed uint64, i int, cn corner) {
	r := derive(seed, "corner", i)
	var accts []*vh.Acct
	var gen []vh.GenAccount
	for k := 0; k < 5; k++ {
		a := vh.NewAcct(r)
		accts = append(accts, a)
		// rich enough to pay 2^200-scale prices
		gen = append(gen, vh.GenAccount{Addr: a.Addr, Coins: sdk.NewCoins(sdk.NewCoin(vh.Denom, sdkmath.NewIntFromBigInt(pow2(230))))})
	}
	cfg := vh.Config{Seed: r.U64(), NumVals: 2, MaxGas: cn.MaxGas, MaxGasSet: true, BaseFee: cn.BaseFee, MinGasPrice: cn.MinPrice, Accounts: gen, Erc20Native: true, StakingCPC: true, NoFirstBlock: true}
	var c *vh.Chain
	var esc any
	wit := func(extra map[string]any) map[string]any {
		m := map[string]any{"corner": cn.Name, "max_gas": cn.MaxGas, "max_bytes": cn.MaxBytes, "genesis_base_fee": cn.BaseFee.String(), "min_gas_price": cn.MinPrice}
		for k, v := range extra {
			m[k] = v
		}
		return m
	}
	trk.before(i, "FinalizeBlock", "corner-"+cn.class(), []byte(cn.Name))
	func() {
		defer func() { esc = recover() }()
		c = vh.PrepareChain(cfg)
		c.Genesis.ConsensusParams.Block.MaxBytes = cn.MaxBytes
		c.Init()
	}()
	if esc != nil {
		rec.Count("corner_genesis_refused", 1)
		rec.Note("corner %s: InitChain refused: %s", cn.Name, trunc(fmt.Sprint(esc), 200))
		return
	}
	defer c.Cleanup()
	rec.Count("corner_histories", 1)
	rec.Distinct("corner_class", cn.class())
	nBlocks := 6
	for b := 0; b < nBlocks; b++ {
		var txs [][]byte
		var descs []string
		if b > 0 { // block 1 is empty (genesis becomes queryable)
			price := new(big.Int).Mul(c.BaseFee(), big.NewInt(2))
			if price.Sign() == 0 {
				price = big.NewInt(int64(r.Intn(3)))
			}
			if cn.MinPrice != "" {
				price = new(big.Int).Mul(pow2(70), big.NewInt(2))
			}
			n := r.Intn(4)
			if b == 1 {
				n = 2 // at least one block with gas used > 0
			}
			for k := 0; k < n; k++ {
				a := accts[k]
				to := accts[(k+1)%len(accts)].Addr
				switch r.Intn(4) {
				case 0, 1:
					bz, _ := c.EthTx(a, vh.LegacyTx(c.Nonce(a.Addr), &to, big.NewInt(int64(r.Intn(1000))), 21000, price, nil))
					txs, descs = append(txs, bz), append(descs, "eth-transfer gas=21000")
				case 2:
					bz, _ := c.EthTx(a, vh.LegacyTx(c.Nonce(a.Addr), nil, nil, 200_000, price, vh.Deployer([]byte{0x60, 0x01, 0x60, 0x00, 0x55, 0x00})))
					txs, descs = append(txs, bz), append(descs, "eth-create gas=200000")
				default:
					var msg sdk.Msg = banktypes.NewMsgSend(a.Acc(), sdk.AccAddress(to.Bytes()), sdk.NewCoins(sdk.NewCoin(vh.Denom, sdkmath.NewInt(5))))
					if r.Bool() {
						msg = stakingtypes.NewMsgDelegate(a.Bech32(), c.Vals[0].Oper.String(), sdk.NewCoin(vh.Denom, sdkmath.NewInt(1000)))
					}
					gas := uint64(300_000)
					fee := sdk.NewCoins(sdk.NewCoin(vh.Denom, sdkmath.NewIntFromBigInt(new(big.Int).Mul(price, new(big.Int).SetUint64(gas)))))
					var bz []byte
					func() {
						defer func() { _ = recover() }()
						bz = c.CosmosTx(a, []sdk.Msg{msg}, &vh.CosmosOpts{Gas: gas, Fee: fee})
					}()
					if bz != nil {
						txs, descs = append(txs, bz), append(descs, "cosmos tx gas=300000")
					}
				}
			}
		}
		var br *vh.BlockResult
		esc = nil
		func() {
			defer func() { esc = recover() }()
			br = c.NextBlock(txs, nil)
		}()
		rec.Eval(1)
		rec.Count("corner_blocks", 1)
		if esc != nil {
			msg := fmt.Sprint(esc)
			reason := reasonClass(msg)
			if cn.class() == "base-fee-above-int64" && reason == "int64-out-of-bound" {
				reason = "telemetry"
			}
			rec.Violation("finalize-block-failed:"+cn.class()+":"+reason, wit(map[string]any{"height": c.Height, "block_txs": descs, "panic": trunc(msg, 1500), "escaped_as": "panic out of FinalizeBlock"}))
			rec.Nontrivial("corner|" + cn.class() + "|panic")
			return
		}
		if br.Err != nil {
			rec.Violation("finalize-block-failed:"+cn.class()+":"+reasonClass(br.Err.Error()), wit(map[string]any{"height": c.Height, "block_txs": descs, "error": trunc(br.Err.Error(), 1500), "escaped_as": "error returned by FinalizeBlock"}))
			rec.Nontrivial("corner|" + cn.class() + "|error")
			return
		}
		var used int64
		okN := 0
		for _, res := range br.TxResults() {
			used += res.GasUsed
			if res.Code == 0 {
				okN++
			}
		}
		rec.Count("corner_txs", len(txs))
		rec.Count("corner_txs_ok", okN)
		if used > 0 {
			rec.Count("corner_blocks_with_gas_used", 1)
			rec.Nontrivial("corner|" + cn.class() + "|gas-used")
		} else {
			rec.Nontrivial("corner|" + cn.class() + "|empty")
		}
	}
	trk.after(i, "FinalizeBlock", "corner-"+cn.class(), "ok")
}
