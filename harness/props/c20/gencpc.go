package c20

import (
	"math/big"
	"reflect"
	"sort"

	"github.com/ethereum/go-ethereum/accounts/abi"
	"github.com/ethereum/go-ethereum/common"

	cpcabi "github.com/EscanBE/evermint/v12/x/cpc/abi"

	"verifharness/vh"
)

// cpcCombo is one cell of the precompile enumeration: every selector of every registered custom
// precompile x argument mutation x route (direct / through a puppet of each call kind) x mode.
type cpcCombo struct {
	Contract string
	Method   string // "" for the per-contract pseudo methods (short input, unknown selector)
	Mutation string
	Route    string
	Mode     string
}

func (c cpcCombo) class() string {
	m := c.Method
	if m == "" {
		m = "-"
	}
	return "cpc-" + c.Contract + "." + m + "-" + c.Mutation + "-" + c.Route
}

// short class for the evidence (the full key space is reported as a distinct count)
func (c cpcCombo) evClass() string { return "cpc-" + c.Contract + "-" + c.Mutation }

var cpcMutations = []string{"valid", "selector-only", "truncated", "overlong", "garbage-args", "misaligned-offset", "dirty-words"}
var cpcRoutes = []string{"direct", "puppet-CALL", "puppet-DELEGATECALL", "puppet-STATICCALL", "puppet-CALLCODE"}
var cpcModes = []string{"deliver", "checktx", "simulate", "ethcall"}

func cpcInfo(name string) cpcabi.CustomPrecompiledContractInfo {
	switch name {
	case "erc20":
		return cpcabi.Erc20CpcInfo
	case "staking":
		return cpcabi.StakingCpcInfo
	default:
		return cpcabi.Bech32CpcInfo
	}
}

// cpcCombos enumerates the whole space in a fixed order.
func cpcCombos() []cpcCombo {
	var out []cpcCombo
	for _, cn := range []string{"erc20", "staking", "bech32"} {
		info := cpcInfo(cn)
		var names []string
		for n := range info.ABI.Methods {
			names = append(names, n)
		}
		sort.Strings(names)
		for _, route := range cpcRoutes {
			for _, mode := range cpcModes {
				for _, n := range names {
					for _, mu := range cpcMutations {
						out = append(out, cpcCombo{cn, n, mu, route, mode})
					}
				}
				out = append(out, cpcCombo{cn, "", "short-input", route, mode}, cpcCombo{cn, "", "unknown-selector", route, mode})
			}
		}
	}
	return out
}

// genArg builds a plausible value of ABI type t.
func genArg(h *hworld, r *vh.RNG, t abi.Type) any {
	switch t.T {
	case abi.AddressTy:
		switch r.Intn(4) {
		case 0:
			return vh.Pick(r, h.valEvm)
		default:
			return vh.Pick(r, h.eoas).Addr
		}
	case abi.UintTy, abi.IntTy:
		switch t.Size {
		case 8:
			if t.T == abi.UintTy {
				return uint8(27 + r.Intn(2))
			}
			return int8(r.Intn(100))
		case 16:
			return uint16(r.Intn(1000))
		case 32:
			return uint32(r.Intn(1000))
		case 64:
			return uint64(r.Intn(1000))
		default:
			return big.NewInt(int64(1 + r.Intn(1_000_000)))
		}
	case abi.BoolTy:
		return r.Bool()
	case abi.StringTy:
		return vh.Pick(r, []string{"evm", "evmvaloper", vh.Pick(r, h.eoas).Bech32(), h.c.Vals[0].Oper.String(), "Delegate", "all", "-", vh.Denom, ""})
	case abi.BytesTy:
		return r.Bytes(vh.Pick(r, []int{0, 20, 32, 33, 64}))
	case abi.FixedBytesTy:
		v := reflect.New(t.GetType()).Elem()
		b := r.Bytes(t.Size)
		for i := 0; i < t.Size; i++ {
			v.Index(i).SetUint(uint64(b[i]))
		}
		return v.Interface()
	case abi.TupleTy:
		v := reflect.New(t.GetType()).Elem()
		for i, el := range t.TupleElems {
			v.Field(i).Set(reflect.ValueOf(genArg(h, r, *el)))
		}
		return v.Interface()
	case abi.SliceTy:
		n := r.Intn(3)
		sl := reflect.MakeSlice(t.GetType(), n, n)
		for i := 0; i < n; i++ {
			sl.Index(i).Set(reflect.ValueOf(genArg(h, r, *t.Elem)))
		}
		return sl.Interface()
	case abi.ArrayTy:
		arr := reflect.New(t.GetType()).Elem()
		for i := 0; i < t.Size; i++ {
			arr.Index(i).Set(reflect.ValueOf(genArg(h, r, *t.Elem)))
		}
		return arr.Interface()
	}
	return big.NewInt(0)
}

// packValid returns selector||args of a well-formed call.
func packValid(h *hworld, contract, method string, r *vh.RNG) []byte {
	info := cpcInfo(contract)
	m, ok := info.ABI.Methods[method]
	if !ok {
		panic("no method " + method)
	}
	args := make([]any, len(m.Inputs))
	for i, in := range m.Inputs {
		args[i] = genArg(h, r, in.Type)
	}
	bz, err := info.ABI.Pack(method, args...)
	if err != nil {
		// fall back to the selector followed by zero words
		return append(append([]byte{}, m.ID...), make([]byte, 32*len(m.Inputs))...)
	}
	return bz
}

func hasDynamic(m abi.Method) bool {
	for _, in := range m.Inputs {
		switch in.Type.T {
		case abi.StringTy, abi.BytesTy, abi.SliceTy:
			return true
		case abi.TupleTy:
			return true
		}
	}
	return false
}

// cpcData renders the call data of a combo.
func cpcData(h *hworld, r *vh.RNG, c cpcCombo) []byte {
	info := cpcInfo(c.Contract)
	if c.Method == "" {
		if c.Mutation == "short-input" {
			return vh.Pick(r, [][]byte{{}, {0xa9}, {0xa9, 0x05}, {0xa9, 0x05, 0x9c}})
		}
		sel := r.Bytes(4)
		for _, m := range info.ABI.Methods { // make sure it is unknown
			if string(m.ID) == string(sel) {
				sel[0] ^= 0xff
			}
		}
		return append(sel, r.Bytes(vh.Pick(r, []int{0, 32, 64}))...)
	}
	m := info.ABI.Methods[c.Method]
	enc := packValid(h, c.Contract, c.Method, r)
	args := enc[4:]
	switch c.Mutation {
	case "valid":
		return enc
	case "selector-only":
		return enc[:4]
	case "truncated":
		if len(args) == 0 {
			return enc[:3+r.Intn(2)] // nothing to truncate but the selector itself / exact
		}
		k := vh.Pick(r, []int{1, 31, 32, 33, len(args) - 1, len(args) / 2})
		if k >= len(args) {
			k = len(args) - 1
		}
		if k < 0 {
			k = 0
		}
		return enc[:4+k]
	case "overlong":
		return append(enc, r.Bytes(vh.Pick(r, []int{1, 31, 32, 100, 10_000}))...)
	case "garbage-args":
		n := vh.Pick(r, []int{len(args), len(args) + 32, 32, 64, 96, 320})
		return append(append([]byte{}, enc[:4]...), r.Bytes(n)...)
	case "misaligned-offset":
		out := append([]byte{}, enc...)
		if hasDynamic(m) && len(args) >= 32 {
			// overwrite head words (offsets / lengths) with hostile values
			words := len(args) / 32
			for i := 0; i < 1+r.Intn(2); i++ {
				w := r.Intn(words)
				v := vh.Pick(r, []*big.Int{big.NewInt(1), big.NewInt(0x21), big.NewInt(int64(len(args))), big.NewInt(int64(len(args)) - 1), big.NewInt(1 << 31), pow2(63), pow2(64), pow2(255), max256})
				copy(out[4+32*w:], common.LeftPadBytes(v.Bytes(), 32))
			}
			return out
		}
		// static arguments only: shift them off the 32-byte grid
		return append(append(append([]byte{}, enc[:4]...), r.Bytes(1+r.Intn(31))...), args...)
	case "dirty-words":
		out := append([]byte{}, enc[:4]...)
		n := len(args)
		if n == 0 {
			n = 32
		}
		return append(out, bytesOf(0xff, n)...)
	}
	panic("unknown cpc mutation " + c.Mutation)
}

// cpcTarget returns the address the transaction / call is sent to for the combo's route.
func cpcTarget(h *hworld, c cpcCombo) common.Address {
	if c.Route == "direct" {
		return h.cpcs[c.Contract]
	}
	return h.puppets[c.Route[len("puppet-"):]+"/"+c.Contract]
}
