package c20

import (
	"encoding/hex"
	"encoding/json"
	"fmt"
	"math"
	"strings"
	"time"

	"github.com/cosmos/gogoproto/proto"
	"github.com/ethereum/go-ethereum/common/hexutil"

	evmtypes "github.com/EscanBE/evermint/v12/x/evm/types"

	"verifharness/vh"
)

// hquery is one hostile request for the ABCI Query entry point.
type hquery struct {
	Class  string
	Path   string
	Data   []byte
	Height int64
	Prove  bool
}

// encode / decode a query as the "input" recorded in the cur file and in witnesses.
func (q *hquery) encode() []byte {
	hdr := fmt.Sprintf("%s\n%d\n%v\n", q.Path, q.Height, q.Prove)
	return append([]byte(hdr), q.Data...)
}

var queryClasses = []string{
	"query-random-path", "query-grpc-route-garbage-data", "query-hostile-height", "query-store-and-app-paths",
	"query-ethcall-malformed-json", "query-ethcall-huge-gas", "query-ethcall-negative-looking-hex", "query-ethcall-unknown-fields", "query-ethcall-fee-field-conflicts",
	"query-estimate-hostile-args", "query-trace-unknown-tracer", "query-trace-js-throws", "query-trace-js-loops-bounded", "query-trace-timeout-values",
	"query-trace-hostile-heights", "query-trace-bad-predecessors", "query-trace-malformed-msg", "query-trace-config-garbage", "query-trace-block-hostile",
	"query-evm-address-args", "query-sdk-route-garbage",
}

// classes that can only be executed under the hang probe (they would block a normal batch forever
// if the application has no bound for them)
var hangProbeClasses = []string{"query-trace-js-loop-at-construction", "query-traceblock-js-loop-at-construction",
	"query-ethcall-unbounded-gas-loop", "query-estimategas-unbounded-gas-loop"}

var grpcRoutes = []string{
	"/ethermint.evm.v1.Query/Account", "/ethermint.evm.v1.Query/CosmosAccount", "/ethermint.evm.v1.Query/ValidatorAccount", "/ethermint.evm.v1.Query/Balance",
	"/ethermint.evm.v1.Query/Storage", "/ethermint.evm.v1.Query/Code", "/ethermint.evm.v1.Query/Params", "/ethermint.evm.v1.Query/EthCall", "/ethermint.evm.v1.Query/EstimateGas",
	"/ethermint.evm.v1.Query/TraceTx", "/ethermint.evm.v1.Query/TraceBlock", "/ethermint.evm.v1.Query/BaseFee", "/ethermint.feemarket.v1.Query/Params", "/ethermint.feemarket.v1.Query/BaseFee",
	"/evermint.cpc.v1.Query/CustomPrecompiledContracts", "/evermint.cpc.v1.Query/CustomPrecompiledContract", "/evermint.cpc.v1.Query/Erc20CustomPrecompiledContractByDenom", "/evermint.cpc.v1.Query/Params",
	"/evermint.vauth.v1.Query/ProofExternalOwnedAccount",
}

var sdkRoutes = []string{
	"/cosmos.bank.v1beta1.Query/AllBalances", "/cosmos.bank.v1beta1.Query/Balance", "/cosmos.bank.v1beta1.Query/DenomOwners", "/cosmos.staking.v1beta1.Query/Validators",
	"/cosmos.staking.v1beta1.Query/Validator", "/cosmos.staking.v1beta1.Query/DelegatorDelegations", "/cosmos.auth.v1beta1.Query/Account", "/cosmos.auth.v1beta1.Query/Accounts",
	"/cosmos.distribution.v1beta1.Query/DelegationTotalRewards", "/cosmos.gov.v1.Query/Proposals", "/cosmos.gov.v1beta1.Query/Proposal", "/cosmos.authz.v1beta1.Query/Grants",
	"/cosmos.feegrant.v1beta1.Query/Allowances", "/cosmos.slashing.v1beta1.Query/SigningInfo", "/cosmos.evidence.v1beta1.Query/AllEvidence", "/cosmos.upgrade.v1beta1.Query/AppliedPlan",
	"/cosmos.consensus.v1.Query/Params", "/ibc.core.client.v1.Query/ClientStates", "/ibc.applications.transfer.v1.Query/DenomTraces", "/cosmos.params.v1beta1.Query/Params",
}

func ethCallReq(args string, gasCap uint64) []byte {
	bz, _ := proto.Marshal(&evmtypes.EthCallRequest{Args: []byte(args), GasCap: gasCap})
	return bz
}

func (g *gen) traceMsg() (*evmtypes.MsgEthereumTx, *vh.Acct) {
	s := g.sender()
	tx := g.validEthTx(s)
	g.pending[s.Addr]-- // queries consume no nonce
	return &evmtypes.MsgEthereumTx{MarshalledTx: mustBin(tx), From: s.Bech32()}, s
}

func (g *gen) traceReq(msg *evmtypes.MsgEthereumTx, preds []*evmtypes.MsgEthereumTx, cfg *evmtypes.TraceConfig) *evmtypes.QueryTraceTxRequest {
	h := g.h
	return &evmtypes.QueryTraceTxRequest{Msg: msg, Predecessors: preds, TraceConfig: cfg, BlockNumber: h.c.Height, BlockHash: hex.EncodeToString(h.lastRec.Hash), BlockTime: h.c.Time}
}

func (g *gen) query(class string) *hquery {
	r, h := g.r, g.h
	q := &hquery{Class: class}
	heights := []int64{0, 0, 0, h.c.Height, 1, 2, h.c.Height - 1}
	q.Height = vh.Pick(r, heights)
	from := vh.Pick(r, h.eoas).Addr.Hex()
	to := h.erc20.Hex()
	if len(h.targets) > 0 && r.Bool() {
		to = vh.Pick(r, h.targets).Hex()
	}
	route := func() string {
		return vh.Pick(r, []string{"/ethermint.evm.v1.Query/EthCall", "/ethermint.evm.v1.Query/EstimateGas"})
	}
	switch class {
	case "query-random-path":
		q.Path = vh.Pick(r, []string{"", "/", "//", "/a/b/c/d/e", string(r.Bytes(12)), "/store", "/store/", "/app", "/app/", "/p2p", "/p2p/filter", "/p2p/filter/addr", "/p2p/filter/id/", "/custom/bank/balances",
			"/" + strings.Repeat("x/", 2000), "/ethermint.evm.v1.Query/", "/ethermint.evm.v1.Query/Nope", "ethermint.evm.v1.Query/EthCall", "/ethermint.evm.v1.Msg/EthereumTx", "/cosmos.bank.v1beta1.Msg/Send", "/cosmos.tx.v1beta1.Service/Simulate", "/cosmos.base.tendermint.v1beta1.Service/GetLatestBlock", "\x00"})
		q.Data = r.Bytes(r.Intn(64))
		q.Height = vh.Pick(r, []int64{0, -1, math.MaxInt64, math.MinInt64, 1})
		q.Prove = r.Bool()
	case "query-grpc-route-garbage-data":
		q.Path = vh.Pick(r, grpcRoutes)
		q.Data = vh.Pick(r, [][]byte{nil, {}, {0x0a}, r.Bytes(1 + r.Intn(80)), {0x0a, 0xff, 0xff, 0xff, 0xff, 0x0f}, append([]byte{0x0a, 0x80, 0x80, 0x80, 0x01}, make([]byte, 100)...)})
	case "query-hostile-height":
		q.Path = vh.Pick(r, grpcRoutes)
		switch q.Path {
		case "/ethermint.evm.v1.Query/EthCall", "/ethermint.evm.v1.Query/EstimateGas":
			q.Data = ethCallReq(fmt.Sprintf(`{"from":"%s","to":"%s","gas":"0x30d40","data":"0x"}`, from, to), 25_000_000)
		}
		q.Height = vh.Pick(r, []int64{-1, math.MinInt64, math.MaxInt64, h.c.Height + 1, h.c.Height + 1000})
		q.Prove = r.Bool()
	case "query-store-and-app-paths":
		q.Path = vh.Pick(r, []string{"/store/evm/key", "/store/evm/subspace", "/store/bank/subspace", "/store/nope/key", "/store/evm/nope", "/store/evm", "/app/simulate", "/app/version", "/app/snapshots", "/app/nope",
			"/p2p/filter/addr/1.2.3.4:5", "/p2p/filter/id/abcdef", "/store/acc/key", "/store/" + strings.Repeat("s", 300) + "/key"})
		q.Data = vh.Pick(r, [][]byte{nil, {0x01}, r.Bytes(21), r.Bytes(300), g.byteInput("random-bytes"), g.ethInput("eth-payload-garbled")})
		q.Height = vh.Pick(r, []int64{0, 1, h.c.Height, h.c.Height + 5, -3})
		q.Prove = r.Bool()
	case "query-ethcall-malformed-json":
		q.Path = route()
		args := vh.Pick(r, []string{``, `{`, `[]`, `null`, `"x"`, `{"from":}`, `{"from":"0x12"}`, `{"from":"` + from + `","to":"zz"}`, `{"to":123}`, `{"gas":"21000"}`, `{"gas":"0x"}`, `{"gas":"0x01"}`, `{"data":"0xzz"}`,
			`{"data":"0x1"}`, `{"accessList":{}}`, `{"accessList":[{}]}`, `{"accessList":[{"address":"` + to + `"}]}`, `{"value":"0x` + strings.Repeat("f", 65) + `"}`, strings.Repeat("[", 20000), `{"a":` + strings.Repeat(`{"a":`, 5000) + `1` + strings.Repeat(`}`, 5001),
			"\xff\xfe", `{"from":"` + from + `","from":"0x0000000000000000000000000000000000000001"}`, `{"chainId":"0x` + strings.Repeat("f", 64) + `"}`})
		q.Data = ethCallReq(args, vh.Pick(r, []uint64{0, 21000, 25_000_000}))
	case "query-ethcall-huge-gas":
		q.Path = route()
		gas := vh.Pick(r, []string{"0xffffffffffffffff", "0x7fffffffffffffff", "0x8000000000000000", "0x5208", "0x0", "0x1", "0x10000000000000000"})
		target := to
		caps := []uint64{0, 20999, 21000, 5_000_000, 25_000_000}
		if r.Bool() {
			target = h.looper.Hex() // burns whatever it gets: the gas cap is the only bound
			// a zero cap means "no cap" (2^64-1 gas): that request is offered by the hang probe only
			caps = []uint64{20999, 21000, 5_000_000, 25_000_000}
		}
		q.Data = ethCallReq(fmt.Sprintf(`{"from":"%s","to":"%s","gas":"%s","data":"0x%x"}`, from, target, gas, r.Bytes(4)), vh.Pick(r, caps))
	case "query-ethcall-negative-looking-hex":
		q.Path = route()
		v := vh.Pick(r, []string{"-0x1", "0x-1", "0x" + strings.Repeat("f", 64), "0x8" + strings.Repeat("0", 63), "-1", "0x00", "0X1", "1e18"})
		field := vh.Pick(r, []string{"value", "gasPrice", "maxFeePerGas", "maxPriorityFeePerGas", "gas", "nonce", "chainId"})
		q.Data = ethCallReq(fmt.Sprintf(`{"from":"%s","to":"%s","%s":"%s"}`, from, to, field, v), 25_000_000)
	case "query-ethcall-unknown-fields":
		q.Path = route()
		q.Data = ethCallReq(fmt.Sprintf(`{"from":"%s","to":"%s","bogus":{"x":[1,2,{"y":null}]},"gas":"0x30d40","input":"0x%x","data":"0x%x","type":"0x7f","blobVersionedHashes":[],"authorizationList":[{}]}`, from, to, r.Bytes(4), r.Bytes(36)), 25_000_000)
	case "query-ethcall-fee-field-conflicts":
		q.Path = route()
		args := vh.Pick(r, []string{
			fmt.Sprintf(`{"from":"%s","to":"%s","gasPrice":"0x1","maxFeePerGas":"0x2"}`, from, to),
			fmt.Sprintf(`{"from":"%s","to":"%s","maxFeePerGas":"0x1","maxPriorityFeePerGas":"0x2"}`, from, to),
			fmt.Sprintf(`{"from":"%s","to":"%s","maxFeePerGas":"0x%s"}`, from, to, strings.Repeat("f", 64)),
			fmt.Sprintf(`{"from":"%s","to":"%s","gasPrice":"0x%s","value":"0x%s"}`, from, to, strings.Repeat("f", 64), strings.Repeat("f", 64)),
			fmt.Sprintf(`{"from":"%s","value":"0x1","data":"0x60006000fd"}`, from),
			fmt.Sprintf(`{"to":"%s","value":"0xde0b6b3a7640000"}`, to),
			fmt.Sprintf(`{"from":"%s","to":"%s","gasPrice":"0x1"}`, h.erc20.Hex(), to), // sender with code-like role
		})
		q.Data = ethCallReq(args, vh.Pick(r, []uint64{0, 25_000_000}))
	case "query-estimate-hostile-args":
		q.Path = "/ethermint.evm.v1.Query/EstimateGas"
		cd := cpcData(h, r, cpcCombo{Contract: "staking", Method: "delegate", Mutation: vh.Pick(r, cpcMutations)})
		args := vh.Pick(r, []string{
			fmt.Sprintf(`{"from":"%s","to":"%s","data":"0x%x"}`, from, h.staking.Hex(), cd),
			fmt.Sprintf(`{"from":"%s","to":"%s"}`, from, h.looper.Hex()),
			fmt.Sprintf(`{"from":"%s","data":"0x%x"}`, from, vh.Deployer(bytesOf(0x5b, 30000))),
			fmt.Sprintf(`{"from":"%s","data":"0x60ef60005360016000f3"}`, from),
			fmt.Sprintf(`{"from":"%s","to":"%s","gas":"0x5207"}`, from, to),
		})
		caps := []uint64{0, 20999, 21000, 21001, 1_000_000, 25_000_000, math.MaxUint64}
		if strings.Contains(args, strings.ToLower(h.looper.Hex()[2:])) || strings.Contains(args, h.looper.Hex()) {
			caps = []uint64{20999, 21000, 21001, 1_000_000, 25_000_000} // unbounded caps on a looping callee: hang probe only
		}
		q.Data = ethCallReq(args, vh.Pick(r, caps))
	case "query-trace-unknown-tracer":
		q.Path = "/ethermint.evm.v1.Query/TraceTx"
		msg, _ := g.traceMsg()
		q.Data = mustProto(g.traceReq(msg, nil, &evmtypes.TraceConfig{Tracer: vh.Pick(r, []string{"nopeTracer", "callTracer ", "CALLTRACER", "4byte", "\x00", strings.Repeat("t", 100000), "1", "null", "{}", "{", "function(){}", "[]"})}))
	case "query-trace-js-throws":
		q.Path = "/ethermint.evm.v1.Query/TraceTx"
		msg, _ := g.traceMsg()
		js := vh.Pick(r, []string{
			`{step: function() { throw "boom" }, fault: function() {}, result: function() { return 1 }}`,
			`{step: function() {}, fault: function() { throw new Error("f") }, result: function() { throw new Error("r") }}`,
			`{step: function(log, db) { return log.stack.peek(9999) }, fault: function() {}, result: function() { return null }}`,
			`{step: function(log, db) { log.memory.slice(-5, 1e9) }, fault: function() {}, result: function() { return undefined }}`,
			`{step: function(log, db) { db.getState("nope", 1); db.getCode(null) }, fault: function() {}, result: function() { return {} }}`,
			`{setup: function(cfg) { throw "setup" }, step: function() {}, fault: function() {}, result: function() {}}`,
			`{step: function() {}, fault: function() {}}`,
			`{result: function() { var a = {}; a.a = a; return a }, step: function() {}, fault: function() {}}`,
			`{step: function() {}, fault: function() {}, result: function() { return toHex(undefined) + bigInt("x") }}`,
			`{enter: function(f) { f.getGas().x.y }, exit: function(r) { throw 1 }, step: function() {}, fault: function() {}, result: function() { return 0 }}`,
		})
		q.Data = mustProto(g.traceReq(msg, nil, &evmtypes.TraceConfig{Tracer: js, Timeout: vh.Pick(r, []string{"", "200ms"})}))
	case "query-trace-js-loops-bounded":
		// loops inside callbacks that run under the trace deadline; an explicit short timeout keeps the batch fast
		q.Path = "/ethermint.evm.v1.Query/TraceTx"
		msg, _ := g.traceMsg()
		js := vh.Pick(r, []string{
			`{step: function() { while (true) {} }, fault: function() {}, result: function() { return 1 }}`,
			`{step: function() {}, fault: function() {}, result: function() { for (;;) {} }}`,
			`{enter: function() { while (1) {} }, exit: function() {}, step: function() {}, fault: function() {}, result: function() { while (1) {} }}`,
		})
		// (setup() runs while the tracer object is constructed, before the deadline is armed: that variant
		// belongs to the hang probe, class query-trace-js-loop-at-construction)
		q.Data = mustProto(g.traceReq(msg, nil, &evmtypes.TraceConfig{Tracer: js, Timeout: vh.Pick(r, []string{"30ms", "1ms", "80ms"})}))
	case "query-trace-timeout-values":
		q.Path = "/ethermint.evm.v1.Query/TraceTx"
		msg, _ := g.traceMsg()
		q.Data = mustProto(g.traceReq(msg, nil, &evmtypes.TraceConfig{Tracer: vh.Pick(r, []string{"", "callTracer", "opcountTracer"}),
			Timeout: vh.Pick(r, []string{"1ns", "0", "-1s", "0s", "9999999h", "1", "abc", "1e3s", "2562047h47m16.854775807s", ".5ms", "1ns1ns"})}))
	case "query-trace-hostile-heights":
		q.Path = vh.Pick(r, []string{"/ethermint.evm.v1.Query/TraceTx", "/ethermint.evm.v1.Query/TraceBlock"})
		msg, _ := g.traceMsg()
		bn := vh.Pick(r, []int64{-1, 0, math.MaxInt64, math.MinInt64, h.c.Height + 10})
		bt := vh.Pick(r, []time.Time{{}, time.Unix(0, 0), time.Unix(253402300799, 0), h.c.Time})
		bh := vh.Pick(r, []string{"", "zz", "0x", strings.Repeat("ab", 31), strings.Repeat("ab", 400)})
		prop := vh.Pick(r, [][]byte{nil, r.Bytes(20), r.Bytes(3), h.c.Vals[0].Cons})
		if strings.HasSuffix(q.Path, "TraceTx") {
			q.Data = mustProto(&evmtypes.QueryTraceTxRequest{Msg: msg, BlockNumber: bn, BlockTime: bt, BlockHash: bh, ProposerAddress: prop})
		} else {
			q.Data = mustProto(&evmtypes.QueryTraceBlockRequest{Txs: []*evmtypes.MsgEthereumTx{msg}, BlockNumber: bn, BlockTime: bt, BlockHash: bh, ProposerAddress: prop})
		}
	case "query-trace-bad-predecessors":
		q.Path = "/ethermint.evm.v1.Query/TraceTx"
		msg, _ := g.traceMsg()
		var preds []*evmtypes.MsgEthereumTx
		for i := 0; i < 1+r.Intn(3); i++ {
			switch r.Intn(4) {
			case 0:
				preds = append(preds, msg) // the traced tx itself (same nonce)
			case 1:
				m2, _ := g.traceMsg()
				preds = append(preds, m2)
			case 2:
				preds = append(preds, &evmtypes.MsgEthereumTx{MarshalledTx: g.handRLP(g.sender()), From: g.sender().Bech32()})
			default:
				preds = append(preds, h.lastEth...) // transactions of an older block: nonces no longer match
			}
		}
		q.Data = mustProto(g.traceReq(msg, preds, nil))
	case "query-trace-malformed-msg":
		q.Path = vh.Pick(r, []string{"/ethermint.evm.v1.Query/TraceTx", "/ethermint.evm.v1.Query/TraceBlock"})
		good, s := g.traceMsg()
		bad := vh.Pick(r, []*evmtypes.MsgEthereumTx{nil, {}, {MarshalledTx: good.MarshalledTx[:len(good.MarshalledTx)/2], From: s.Bech32()}, {MarshalledTx: good.MarshalledTx, From: "bad"},
			{MarshalledTx: []byte{0x02}, From: s.Bech32()}, {MarshalledTx: g.handDynFee(s, true), From: s.Bech32()}, {MarshalledTx: mustBin(g.sigless(s)), From: s.Bech32()}})
		if strings.HasSuffix(q.Path, "TraceTx") {
			if r.Bool() {
				q.Data = mustProto(g.traceReq(bad, nil, nil))
			} else {
				if bad == nil { // a nil element of a repeated field has no wire encoding
					bad = &evmtypes.MsgEthereumTx{}
				}
				q.Data = mustProto(g.traceReq(good, []*evmtypes.MsgEthereumTx{bad}, nil))
			}
		} else {
			if bad == nil {
				bad = &evmtypes.MsgEthereumTx{}
			}
			q.Data = mustProto(&evmtypes.QueryTraceBlockRequest{Txs: []*evmtypes.MsgEthereumTx{good, bad, good}, BlockNumber: h.c.Height, BlockTime: h.c.Time})
		}
	case "query-trace-config-garbage":
		q.Path = "/ethermint.evm.v1.Query/TraceTx"
		msg, _ := g.traceMsg()
		cfg := vh.Pick(r, []*evmtypes.TraceConfig{
			{Limit: -1}, {Limit: math.MinInt32}, {Limit: math.MaxInt32, EnableMemory: true, EnableReturnData: true}, {Reexec: math.MaxUint64},
			{Tracer: "callTracer", TracerJsonConfig: `{"onlyTopCall":"yes"}`}, {Tracer: "callTracer", TracerJsonConfig: `{`}, {Tracer: "prestateTracer", TracerJsonConfig: `[1,2]`},
			{Tracer: "callTracer", TracerJsonConfig: strings.Repeat("[", 10000)}, {Tracer: "4byteTracer", TracerJsonConfig: `null`},
			{Overrides: &evmtypes.ChainConfig{}}, {Tracer: "callTracer", Overrides: func() *evmtypes.ChainConfig { c := evmtypes.DefaultChainConfig(); return &c }()},
		})
		q.Data = mustProto(g.traceReq(msg, nil, cfg))
	case "query-trace-block-hostile":
		q.Path = "/ethermint.evm.v1.Query/TraceBlock"
		var txs []*evmtypes.MsgEthereumTx
		n := vh.Pick(r, []int{0, 1, 3, 40})
		for i := 0; i < n; i++ {
			m, _ := g.traceMsg()
			txs = append(txs, m)
		}
		cfg := vh.Pick(r, []*evmtypes.TraceConfig{nil, {Tracer: "callTracer"}, {Tracer: "nope"}, {Timeout: "1ns"}, {Limit: -3},
			{Tracer: `{step: function() { throw 1 }, fault: function() {}, result: function() { return 1 }}`}})
		q.Data = mustProto(&evmtypes.QueryTraceBlockRequest{Txs: txs, TraceConfig: cfg, BlockNumber: h.c.Height, BlockTime: h.c.Time, BlockHash: hex.EncodeToString(h.lastRec.Hash)})
	case "query-evm-address-args":
		addr := vh.Pick(r, []string{"", "0x", "0x0", "zz", from[:20], from + "00", strings.ToUpper(from), "0x0000000000000000000000000000000000000000", vh.Pick(r, h.eoas).Bech32(), strings.Repeat("0x", 5000)})
		switch r.Intn(6) {
		case 0:
			q.Path, q.Data = "/ethermint.evm.v1.Query/Account", mustProto(&evmtypes.QueryAccountRequest{Address: addr})
		case 1:
			q.Path, q.Data = "/ethermint.evm.v1.Query/Storage", mustProto(&evmtypes.QueryStorageRequest{Address: vh.Pick(r, []string{addr, from}), Key: vh.Pick(r, []string{"", "0x", "zz", strings.Repeat("f", 100), "0x1"})})
		case 2:
			q.Path, q.Data = "/ethermint.evm.v1.Query/Code", mustProto(&evmtypes.QueryCodeRequest{Address: addr})
		case 3:
			q.Path, q.Data = "/ethermint.evm.v1.Query/ValidatorAccount", mustProto(&evmtypes.QueryValidatorAccountRequest{ConsAddress: vh.Pick(r, []string{addr, h.c.Vals[0].Oper.String(), vh.Pick(r, h.eoas).Bech32()})})
		case 4:
			q.Path, q.Data = "/ethermint.evm.v1.Query/CosmosAccount", mustProto(&evmtypes.QueryCosmosAccountRequest{Address: addr})
		default:
			q.Path, q.Data = "/ethermint.evm.v1.Query/Balance", mustProto(&evmtypes.QueryBalanceRequest{Address: addr})
		}
	case "query-sdk-route-garbage":
		q.Path = vh.Pick(r, sdkRoutes)
		q.Data = vh.Pick(r, [][]byte{nil, r.Bytes(1 + r.Intn(60)), {0x0a, 0x03, 'b', 'a', 'd'}, {0x12, 0x0a, 0x08, 0xff, 0xff, 0xff, 0xff, 0xff, 0xff, 0xff, 0xff, 0xff, 0x01}})
		q.Prove = r.Chance(1, 4)
	case "query-trace-js-loop-at-construction":
		// the tracer source is evaluated while the tracer object is built
		q.Path = "/ethermint.evm.v1.Query/TraceTx"
		msg, _ := g.traceMsg()
		q.Height = 0
		js := vh.Pick(r, []string{
			`{step: function() {}, fault: function() {}, result: (function() { while (true) {} })()}`,
			`{setup: function() { while (true) {} }, step: function() {}, fault: function() {}, result: function() { return 2 }}`,
		})
		q.Data = mustProto(g.traceReq(msg, nil, &evmtypes.TraceConfig{Tracer: js, Timeout: "100ms"}))
	case "query-traceblock-js-loop-at-construction":
		q.Path = "/ethermint.evm.v1.Query/TraceBlock"
		msg, _ := g.traceMsg()
		q.Height = 0
		q.Data = mustProto(&evmtypes.QueryTraceBlockRequest{Txs: []*evmtypes.MsgEthereumTx{msg}, BlockNumber: h.c.Height, BlockTime: h.c.Time,
			TraceConfig: &evmtypes.TraceConfig{Tracer: `{step: function() {}, fault: function() {}, result: (function() { for (;;) {} })()}`, Timeout: "100ms"}})
	case "query-ethcall-unbounded-gas-loop":
		// GasCap 0 = no cap; the callee is an infinite loop: nothing bounds the execution but 2^64-1 gas
		q.Path = "/ethermint.evm.v1.Query/EthCall"
		q.Data = ethCallReq(fmt.Sprintf(`{"from":"%s","to":"%s","gas":"0xffffffffffffffff","data":"0x"}`, from, h.looper.Hex()), 0)
	case "query-estimategas-unbounded-gas-loop":
		q.Path = "/ethermint.evm.v1.Query/EstimateGas"
		q.Data = ethCallReq(fmt.Sprintf(`{"from":"%s","to":"%s","gas":"0xffffffffffffffff"}`, from, h.looper.Hex()), math.MaxUint64)
	default:
		panic("unknown query class " + class)
	}
	return q
}

// sigless: an unsigned transaction (V=R=S=0).
func (g *gen) sigless(s *vh.Acct) *ethTxAlias {
	a := s.Addr
	return newUnsignedLegacy(g.h.c.Nonce(s.Addr), &a, g.h.price())
}

var _ = json.Marshal
var _ = hexutil.Encode
