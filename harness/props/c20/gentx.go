package c20

import (
	"fmt"
	"math"
	"math/big"
	"reflect"
	"strings"
	"time"

	sdkmath "cosmossdk.io/math"
	"cosmossdk.io/x/feegrant"
	codectypes "github.com/cosmos/cosmos-sdk/codec/types"
	sdk "github.com/cosmos/cosmos-sdk/types"
	txtypes "github.com/cosmos/cosmos-sdk/types/tx"
	"github.com/cosmos/cosmos-sdk/types/tx/signing"
	vestingtypes "github.com/cosmos/cosmos-sdk/x/auth/vesting/types"
	"github.com/cosmos/cosmos-sdk/x/authz"
	banktypes "github.com/cosmos/cosmos-sdk/x/bank/types"
	distrtypes "github.com/cosmos/cosmos-sdk/x/distribution/types"
	govv1 "github.com/cosmos/cosmos-sdk/x/gov/types/v1"
	govv1beta1 "github.com/cosmos/cosmos-sdk/x/gov/types/v1beta1"
	slashingtypes "github.com/cosmos/cosmos-sdk/x/slashing/types"
	stakingtypes "github.com/cosmos/cosmos-sdk/x/staking/types"
	"github.com/cosmos/gogoproto/proto"
	"github.com/ethereum/go-ethereum/common"
	ethtypes "github.com/ethereum/go-ethereum/core/types"
	"github.com/ethereum/go-ethereum/crypto"
	"github.com/ethereum/go-ethereum/rlp"

	cpctypes "github.com/EscanBE/evermint/v12/x/cpc/types"
	evmtypes "github.com/EscanBE/evermint/v12/x/evm/types"
	evmutils "github.com/EscanBE/evermint/v12/x/evm/utils"
	vauthtypes "github.com/EscanBE/evermint/v12/x/vauth/types"

	"verifharness/vh"
)

const (
	urlMsgEth = "/ethermint.evm.v1.MsgEthereumTx"
	urlExtEth = "/ethermint.evm.v1.ExtensionOptionsEthereumTx"
)

// gen produces hostile inputs from one PRNG stream per input.
type gen struct {
	h       *hworld
	r       *vh.RNG
	pending map[common.Address]uint64 // nonces used in the block under composition
}

func (g *gen) sender() *vh.Acct { return vh.Pick(g.r, g.h.eoas) }

func (g *gen) nonce(a *vh.Acct) uint64 {
	n := g.h.c.Nonce(a.Addr) + g.pending[a.Addr]
	g.pending[a.Addr]++
	return n
}

func pow2(n uint) *big.Int { return new(big.Int).Lsh(big.NewInt(1), n) }

var max256 = new(big.Int).Sub(pow2(256), big.NewInt(1))

// ---------------------------------------------------------------------------------------
// raw Cosmos transaction assembly (full control over every protobuf byte, valid signatures)
// ---------------------------------------------------------------------------------------

type rawOpts struct {
	bodyMut   func([]byte) []byte // surgery on the encoded body before signing
	authMut   func([]byte) []byte
	noSign    bool
	badSig    bool
	seqDelta  int64
	accNum    *uint64
	chainID   string
	extraSigs int
	signMode  signing.SignMode
}

func (g *gen) rawTx(body *txtypes.TxBody, fee *txtypes.Fee, signers []*vh.Acct, o *rawOpts) []byte {
	if o == nil {
		o = &rawOpts{}
	}
	c := g.h.c
	bodyBz, err := proto.Marshal(body)
	if err != nil {
		bodyBz = nil
	}
	if o.bodyMut != nil {
		bodyBz = o.bodyMut(bodyBz)
	}
	auth := &txtypes.AuthInfo{Fee: fee}
	mode := o.signMode
	if mode == 0 {
		mode = signing.SignMode_SIGN_MODE_DIRECT
	}
	type si struct {
		acc      *vh.Acct
		seq, num uint64
	}
	var infos []si
	if !o.noSign {
		ctx := c.QueryCtx()
		for _, a := range signers {
			var seq, num uint64
			if acc := c.App.AccountKeeper.GetAccount(ctx, a.Acc()); acc != nil {
				seq, num = acc.GetSequence(), acc.GetAccountNumber()
			}
			seq += g.pending[a.Addr]
			g.pending[a.Addr]++
			seq = uint64(int64(seq) + o.seqDelta)
			if o.accNum != nil {
				num = *o.accNum
			}
			pkAny, _ := codectypes.NewAnyWithValue(a.PrivKey().PubKey())
			auth.SignerInfos = append(auth.SignerInfos, &txtypes.SignerInfo{PublicKey: pkAny,
				ModeInfo: &txtypes.ModeInfo{Sum: &txtypes.ModeInfo_Single_{Single: &txtypes.ModeInfo_Single{Mode: mode}}}, Sequence: seq})
			infos = append(infos, si{a, seq, num})
		}
	}
	authBz, _ := proto.Marshal(auth)
	if o.authMut != nil {
		authBz = o.authMut(authBz)
	}
	raw := &txtypes.TxRaw{BodyBytes: bodyBz, AuthInfoBytes: authBz}
	chainID := o.chainID
	if chainID == "" {
		chainID = vh.ChainID
	}
	for _, in := range infos {
		doc := &txtypes.SignDoc{BodyBytes: bodyBz, AuthInfoBytes: authBz, ChainId: chainID, AccountNumber: in.num}
		docBz, _ := proto.Marshal(doc)
		sig, err := in.acc.PrivKey().Sign(docBz)
		if err != nil {
			sig = make([]byte, 65)
		}
		if o.badSig {
			sig[3] ^= 0x40
		}
		raw.Signatures = append(raw.Signatures, sig)
	}
	for i := 0; i < o.extraSigs; i++ {
		raw.Signatures = append(raw.Signatures, g.r.Bytes(65))
	}
	bz, _ := proto.Marshal(raw)
	return bz
}

func (g *gen) defaultFee(gas uint64) *txtypes.Fee {
	p := new(big.Int).Mul(g.h.c.BaseFee(), big.NewInt(2))
	if p.Sign() == 0 {
		p = big.NewInt(1)
	}
	return &txtypes.Fee{GasLimit: gas, Amount: sdk.NewCoins(sdk.NewCoin(vh.Denom, sdkmath.NewIntFromBigInt(new(big.Int).Mul(p, new(big.Int).SetUint64(gas)))))}
}

func anyOf(m proto.Message) *codectypes.Any {
	a, err := codectypes.NewAnyWithValue(m)
	if err != nil {
		bz, _ := proto.Marshal(m)
		return &codectypes.Any{TypeUrl: "/" + proto.MessageName(m), Value: bz}
	}
	return a
}

// ---------------------------------------------------------------------------------------
// Ethereum envelopes
// ---------------------------------------------------------------------------------------

type envOpts struct {
	from       string // declared From (bech32); "" = signer
	noExt      bool
	extraExt   bool
	nonCritExt bool
	fee        *txtypes.Fee // nil = the fee the payload implies
	withSig    bool
	payer      string
	memo       string
	timeout    uint64
	twoMsgs    bool
	plusCosmos bool
	msgURL     string // type URL override for the message Any
}

// envelope wraps an (arbitrary) payload the way evermint's canonical Ethereum tx is built.
func (g *gen) envelope(payload []byte, signer *vh.Acct, o *envOpts) []byte {
	if o == nil {
		o = &envOpts{}
	}
	from := o.from
	if from == "" && signer != nil {
		from = signer.Bech32()
	}
	msg := &evmtypes.MsgEthereumTx{MarshalledTx: payload, From: from}
	msgBz, _ := proto.Marshal(msg)
	url := urlMsgEth
	if o.msgURL != "" {
		url = o.msgURL
	}
	body := &txtypes.TxBody{Messages: []*codectypes.Any{{TypeUrl: url, Value: msgBz}}, Memo: o.memo, TimeoutHeight: o.timeout}
	if o.twoMsgs {
		body.Messages = append(body.Messages, &codectypes.Any{TypeUrl: url, Value: msgBz})
	}
	if o.plusCosmos && signer != nil {
		body.Messages = append(body.Messages, anyOf(banktypes.NewMsgSend(signer.Acc(), signer.Acc(), sdk.NewCoins(sdk.NewCoin(vh.Denom, sdkmath.OneInt())))))
	}
	if !o.noExt {
		body.ExtensionOptions = append(body.ExtensionOptions, &codectypes.Any{TypeUrl: urlExtEth})
	}
	if o.extraExt {
		body.ExtensionOptions = append(body.ExtensionOptions, &codectypes.Any{TypeUrl: urlExtEth}, &codectypes.Any{TypeUrl: "/ethermint.types.v1.ExtensionOptionDynamicFeeTx", Value: g.r.Bytes(g.r.Intn(12))})
	}
	if o.nonCritExt {
		body.NonCriticalExtensionOptions = append(body.NonCriticalExtensionOptions, &codectypes.Any{TypeUrl: urlExtEth})
	}
	fee := o.fee
	if fee == nil {
		fee = &txtypes.Fee{GasLimit: 21000}
		tx := &ethtypes.Transaction{}
		if err := tx.UnmarshalBinary(payload); err == nil {
			fee.GasLimit = tx.Gas()
			if f := evmutils.EthTxFee(tx); f.Sign() > 0 && f.BitLen() <= 256 {
				fee.Amount = sdk.Coins{sdk.NewCoin(vh.Denom, sdkmath.NewIntFromBigInt(f))}
			}
		}
	}
	fee.Payer = o.payer
	ro := &rawOpts{noSign: !o.withSig}
	var signers []*vh.Acct
	if o.withSig && signer != nil {
		signers = []*vh.Acct{signer}
	}
	return g.rawTx(body, fee, signers, ro)
}

// validEthTx: a well-formed signed Ethereum transaction of one of the usual shapes.
func (g *gen) validEthTx(s *vh.Acct) *ethtypes.Transaction {
	r, h := g.r, g.h
	n := g.nonce(s)
	price := h.price()
	var to *common.Address
	var data []byte
	value := new(big.Int)
	gas := uint64(300_000)
	switch r.Intn(6) {
	case 0:
		a := vh.Pick(r, h.eoas).Addr
		to, value, gas = &a, big.NewInt(int64(r.Intn(100000))), 21000
	case 1:
		if len(h.targets) > 0 {
			a := vh.Pick(r, h.targets)
			to, data = &a, r.Bytes(vh.Pick(r, []int{0, 4, 36}))
		} else {
			a := h.looper
			to, gas = &a, 50_000
		}
	case 2:
		data, gas = vh.Deployer(vh.GenProgram(r, vh.ProgOpts{MaxLen: 4, Depth: 1}).Code), 1_500_000
	case 3:
		a := h.erc20
		to, data = &a, packValid(h, "erc20", "transfer", r)
	case 4:
		a := h.staking
		to, data, gas = &a, packValid(h, "staking", "delegate", r), 2_000_000
	default:
		a := h.bech32
		to, data = &a, packValid(h, "bech32", "bech32EncodeAddress", r)
	}
	switch r.Intn(3) {
	case 0:
		return vh.SignEth(s, vh.LegacyTx(n, to, value, gas, price, data))
	case 1:
		return vh.SignEth(s, &ethtypes.AccessListTx{ChainID: big.NewInt(vh.EIP155ID), Nonce: n, To: to, Value: value, Gas: gas, GasPrice: price, Data: data,
			AccessList: ethtypes.AccessList{{Address: s.Addr, StorageKeys: []common.Hash{{1}}}}})
	default:
		return vh.SignEth(s, vh.DynTx(n, to, value, gas, new(big.Int).Mul(price, big.NewInt(2)), big.NewInt(int64(r.Intn(1000))), data, nil))
	}
}

func mustBin(tx *ethtypes.Transaction) []byte {
	b, err := tx.MarshalBinary()
	if err != nil {
		panic(err)
	}
	return b
}

// ethClasses lists the structure-aware mutation classes of Ethereum envelopes.
var ethClasses = []string{
	"valid-eth", "eth-payload-truncated", "eth-payload-garbled", "eth-payload-wrong-type-byte", "eth-payload-empty", "eth-payload-huge",
	"eth-from-bad-bech32", "eth-from-other-prefix", "eth-from-empty", "eth-from-other-account", "eth-rlp-hand-encoded", "eth-huge-numbers",
	"eth-fee-near-2^256", "eth-negative-looking-caps", "eth-envelope-extension", "eth-envelope-fee-mismatch", "eth-envelope-signed", "eth-envelope-multi-msg",
	"eth-wrong-chain-id", "eth-unprotected", "eth-bad-signature-values", "eth-msg-type-url-swap",
}

func (g *gen) ethInput(class string) []byte {
	r, h := g.r, g.h
	s := g.sender()
	switch class {
	case "valid-eth":
		return g.envelope(mustBin(g.validEthTx(s)), s, nil)
	case "eth-payload-truncated":
		p := mustBin(g.validEthTx(s))
		return g.envelope(p[:1+r.Intn(len(p)-1)], s, nil)
	case "eth-payload-garbled":
		p := mustBin(g.validEthTx(s))
		k := 1 + r.Intn(len(p)-1)
		switch r.Intn(3) {
		case 0:
			copy(p[k:], r.Bytes(len(p)-k))
		case 1:
			for i := 0; i < 1+r.Intn(4); i++ {
				p[k+r.Intn(len(p)-k)] ^= byte(1 << r.Intn(8))
			}
		default:
			p = append(p[:k], r.Bytes(r.Intn(200))...)
		}
		return g.envelope(p, s, nil)
	case "eth-payload-wrong-type-byte":
		p := mustBin(g.validEthTx(s))
		tb := vh.Pick(r, []byte{0x00, 0x01, 0x02, 0x03, 0x04, 0x05, 0x7e, 0x7f, 0x80, 0xb8, 0xc0, 0xf8, 0xff})
		if p[0] < 0x7f {
			p[0] = tb
		} else {
			p = append([]byte{tb}, p...)
		}
		return g.envelope(p, s, nil)
	case "eth-payload-empty":
		return g.envelope(vh.Pick(r, [][]byte{nil, {}, {0x02}, {0x01}, {0xc0}, {0x80}}), s, &envOpts{fee: g.defaultFee(21000)})
	case "eth-payload-huge":
		if r.Bool() { // valid but huge call data
			a := vh.Pick(r, h.eoas).Addr
			tx := vh.SignEth(s, vh.LegacyTx(g.nonce(s), &a, nil, 30_000_000, h.price(), make([]byte, vh.Pick(r, []int{130_000, 400_000, 1_000_000}))))
			return g.envelope(mustBin(tx), s, nil)
		}
		p := mustBin(g.validEthTx(s))
		return g.envelope(append(p, r.Bytes(vh.Pick(r, []int{70_000, 600_000}))...), s, nil)
	case "eth-from-bad-bech32":
		bad := vh.Pick(r, []string{"evm1", "evm1qqqqqqqqqqqqqqqqqqqqqqqqqqqqqqqqqqqqqq", "not-an-address", strings.ToUpper(s.Bech32()), s.Bech32() + "x", s.Bech32()[:20], "evm1" + strings.Repeat("q", 300), "\x00\xff", s.Addr.Hex()})
		return g.envelope(mustBin(g.validEthTx(s)), s, &envOpts{from: bad})
	case "eth-from-other-prefix":
		other := vh.Pick(r, []string{sdk.ValAddress(s.Addr.Bytes()).String(), sdk.ConsAddress(s.Addr.Bytes()).String(), sdk.MustBech32ifyAddressBytes("cosmos", s.Addr.Bytes()), sdk.MustBech32ifyAddressBytes("evmpub", s.Addr.Bytes())})
		return g.envelope(mustBin(g.validEthTx(s)), s, &envOpts{from: other})
	case "eth-from-empty":
		return g.rawTx(&txtypes.TxBody{Messages: []*codectypes.Any{{TypeUrl: urlMsgEth, Value: mustProto(&evmtypes.MsgEthereumTx{MarshalledTx: mustBin(g.validEthTx(s))})}},
			ExtensionOptions: []*codectypes.Any{{TypeUrl: urlExtEth}}}, g.defaultFee(21000), nil, &rawOpts{noSign: true})
	case "eth-from-other-account":
		o := vh.Pick(r, h.eoas)
		from := o.Bech32()
		if r.Chance(1, 3) { // 32-byte / 1-byte address bodies
			from = sdk.MustBech32ifyAddressBytes("evm", r.Bytes(vh.Pick(r, []int{1, 19, 21, 32, 255})))
		}
		return g.envelope(mustBin(g.validEthTx(s)), s, &envOpts{from: from})
	case "eth-rlp-hand-encoded":
		return g.envelope(g.handRLP(s), s, &envOpts{fee: g.defaultFee(100000)})
	case "eth-huge-numbers":
		a := vh.Pick(r, h.eoas).Addr
		big1 := func() *big.Int {
			return vh.Pick(r, []*big.Int{max256, pow2(255), pow2(256), pow2(300), new(big.Int).SetUint64(math.MaxUint64), pow2(63), pow2(64), big.NewInt(0)})
		}
		gas := vh.Pick(r, []uint64{21000, math.MaxInt64, math.MaxInt64 + 1, math.MaxUint64, 1 << 62})
		var txd ethtypes.TxData
		if r.Bool() {
			txd = vh.LegacyTx(vh.Pick(r, []uint64{g.h.c.Nonce(s.Addr), math.MaxUint64, math.MaxUint64 - 1}), &a, big1(), gas, big1(), nil)
		} else {
			txd = vh.DynTx(g.h.c.Nonce(s.Addr), &a, big1(), gas, big1(), big1(), nil, nil)
		}
		tx, err := ethtypes.SignNewTx(s.Key, vh.EthSigner(), txd)
		if err != nil {
			return g.envelope(nil, s, nil)
		}
		return g.envelope(mustBin(tx), s, nil)
	case "eth-fee-near-2^256":
		a := vh.Pick(r, h.eoas).Addr
		gas := vh.Pick(r, []uint64{21000, 1 << 32, math.MaxInt64})
		price := new(big.Int).Div(max256, new(big.Int).SetUint64(gas))
		price.Add(price, big.NewInt(int64(r.Intn(3))-1))
		tx := vh.SignEth(s, vh.LegacyTx(g.h.c.Nonce(s.Addr), &a, vh.Pick(r, []*big.Int{big.NewInt(0), big.NewInt(1), max256}), gas, price, nil))
		o := &envOpts{}
		if r.Bool() { // a fee amount the Cosmos side can carry
			o.fee = &txtypes.Fee{GasLimit: gas, Amount: sdk.Coins{sdk.NewCoin(vh.Denom, sdkmath.NewIntFromBigInt(max256))}}
		}
		return g.envelope(mustBin(tx), s, o)
	case "eth-negative-looking-caps":
		return g.envelope(g.handDynFee(s, true), s, &envOpts{fee: g.defaultFee(100000)})
	case "eth-envelope-extension":
		return g.envelope(mustBin(g.validEthTx(s)), s, vh.Pick(r, []*envOpts{{noExt: true}, {extraExt: true}, {nonCritExt: true}, {noExt: true, nonCritExt: true}}))
	case "eth-envelope-fee-mismatch":
		tx := g.validEthTx(s)
		fee := &txtypes.Fee{GasLimit: vh.Pick(r, []uint64{0, tx.Gas() - 1, tx.Gas() + 1, math.MaxUint64}), Amount: vh.Pick(r, []sdk.Coins{nil, sdk.NewCoins(sdk.NewCoin(vh.Denom, sdkmath.OneInt())),
			{sdk.Coin{Denom: vh.Denom, Amount: sdkmath.NewInt(-5)}}, {sdk.Coin{Denom: "!!", Amount: sdkmath.OneInt()}}, {sdk.Coin{Denom: vh.Denom}}, sdk.NewCoins(sdk.NewCoin("other", sdkmath.NewInt(7)), sdk.NewCoin(vh.Denom, sdkmath.NewIntFromBigInt(max256)))})}
		return g.envelope(mustBin(tx), s, &envOpts{fee: fee, payer: vh.Pick(r, []string{"", s.Bech32(), "bad"}), memo: vh.Pick(r, []string{"", strings.Repeat("m", 600)}), timeout: vh.Pick(r, []uint64{0, 1, math.MaxUint64})})
	case "eth-envelope-signed":
		return g.envelope(mustBin(g.validEthTx(s)), s, &envOpts{withSig: true})
	case "eth-envelope-multi-msg":
		return g.envelope(mustBin(g.validEthTx(s)), s, vh.Pick(r, []*envOpts{{twoMsgs: true}, {plusCosmos: true}, {plusCosmos: true, withSig: true, noExt: true}}))
	case "eth-wrong-chain-id":
		a := vh.Pick(r, h.eoas).Addr
		cid := vh.Pick(r, []*big.Int{big.NewInt(1), big.NewInt(0), pow2(64), pow2(255), big.NewInt(vh.EIP155ID + 1)})
		tx, err := ethtypes.SignNewTx(s.Key, ethtypes.LatestSignerForChainID(cid), &ethtypes.DynamicFeeTx{ChainID: cid, Nonce: g.h.c.Nonce(s.Addr), To: &a, Gas: 21000, GasFeeCap: h.price(), GasTipCap: big.NewInt(1), Value: new(big.Int)})
		if err != nil {
			return g.envelope([]byte{0x02, 0xc0}, s, nil)
		}
		return g.envelope(mustBin(tx), s, nil)
	case "eth-unprotected":
		a := vh.Pick(r, h.eoas).Addr
		tx, err := ethtypes.SignNewTx(s.Key, ethtypes.HomesteadSigner{}, vh.LegacyTx(g.h.c.Nonce(s.Addr), &a, nil, 21000, h.price(), nil))
		if err != nil {
			return g.envelope(nil, s, nil)
		}
		return g.envelope(mustBin(tx), s, nil)
	case "eth-bad-signature-values":
		a := vh.Pick(r, h.eoas).Addr
		v := vh.Pick(r, []*big.Int{big.NewInt(0), big.NewInt(1), big.NewInt(27), pow2(64), pow2(256), new(big.Int).SetInt64(vh.EIP155ID*2 + 35)})
		rr := vh.Pick(r, []*big.Int{big.NewInt(0), big.NewInt(1), max256, crypto.S256().Params().N, r.BigBits(256)})
		ss := vh.Pick(r, []*big.Int{big.NewInt(0), big.NewInt(1), max256, new(big.Int).Rsh(crypto.S256().Params().N, 1), r.BigBits(256)})
		tx := ethtypes.NewTx(&ethtypes.LegacyTx{Nonce: g.h.c.Nonce(s.Addr), To: &a, Gas: 21000, GasPrice: h.price(), Value: new(big.Int), V: v, R: rr, S: ss})
		return g.envelope(mustBin(tx), s, nil)
	case "eth-msg-type-url-swap":
		return g.envelope(mustBin(g.validEthTx(s)), s, &envOpts{msgURL: vh.Pick(r, h.msgURLs), noExt: r.Bool(), withSig: r.Bool()})
	}
	panic("unknown eth class " + class)
}

func mustProto(m proto.Message) []byte {
	b, err := proto.Marshal(m)
	if err != nil {
		panic(err)
	}
	return b
}

// handRLP builds a transaction payload from hand-made RLP items: oversized integers,
// non-canonical leading zeros, lists where strings are expected, missing / extra fields.
func (g *gen) handRLP(s *vh.Acct) []byte {
	r := g.r
	if r.Bool() {
		return g.handDynFee(s, false)
	}
	item := func() any {
		switch r.Intn(9) {
		case 0:
			return r.Bytes(33 + r.Intn(8)) // > 256 bit integer
		case 1:
			return append([]byte{0}, r.Bytes(1+r.Intn(8))...) // leading zero
		case 2:
			return []any{r.Bytes(3), []any{}}
		case 3:
			return []byte{}
		case 4:
			return r.Bytes(20)
		case 5:
			return uint64(math.MaxUint64)
		case 6:
			return rlp.RawValue{0xb8, 0x01, 0x05} // non-canonical long-form string
		case 7:
			return rlp.RawValue{0xbf, 0xff, 0xff, 0xff, 0xff, 0xff, 0xff, 0xff, 0xff} // absurd length prefix
		default:
			return uint64(r.Intn(100000))
		}
	}
	n := vh.Pick(r, []int{0, 3, 8, 9, 10, 12, 13, 30})
	items := make([]any, n)
	for i := range items {
		items[i] = item()
	}
	enc, err := rlp.EncodeToBytes(items)
	if err != nil {
		enc = []byte{0xc0}
	}
	switch r.Intn(3) {
	case 0:
		return enc // legacy shape
	case 1:
		return append([]byte{0x01}, enc...)
	default:
		return append([]byte{0x02}, enc...)
	}
}

// handDynFee encodes 0x02 || rlp([...12 fields...]) by hand. negLooking puts two's-complement
// "negative" bit patterns (0xff.., 33 bytes with leading 0x80) into the gas-cap fields.
func (g *gen) handDynFee(s *vh.Acct, negLooking bool) []byte {
	r := g.r
	a := vh.Pick(r, g.h.eoas).Addr
	neg := func() any {
		switch r.Intn(5) {
		case 0:
			return bytesOf(0xff, 32)
		case 1:
			return append([]byte{0x80}, make([]byte, 32)...) // 33 bytes
		case 2:
			return append([]byte{0xff}, bytesOf(0xff, 32)...)
		case 3:
			return append([]byte{0x00}, bytesOf(0xff, 8)...) // non-canonical
		default:
			return bytesOf(0xff, 8)
		}
	}
	var tip, cap any = big.NewInt(1), g.h.price()
	if negLooking {
		tip = neg()
		if r.Bool() {
			cap = neg()
		}
	} else if r.Bool() {
		cap, tip = big.NewInt(1), g.h.price() // tip above cap
	}
	fields := []any{big.NewInt(vh.EIP155ID), g.h.c.Nonce(s.Addr), tip, cap, uint64(100000), a.Bytes(), big.NewInt(0), []byte{}, []any{}}
	// sign the hand-made payload so that it gets as far as possible
	unsigned, _ := rlp.EncodeToBytes(fields)
	hash := crypto.Keccak256(append([]byte{0x02}, unsigned...))
	sig, err := crypto.Sign(hash, s.Key)
	if err != nil {
		sig = make([]byte, 65)
	}
	fields = append(fields, uint64(sig[64]), new(big.Int).SetBytes(sig[:32]), new(big.Int).SetBytes(sig[32:64]))
	if !negLooking && r.Chance(1, 3) {
		fields = append(fields, r.Bytes(4)) // extra field
	}
	enc, err := rlp.EncodeToBytes(fields)
	if err != nil {
		enc = []byte{0xc0}
	}
	return append([]byte{0x02}, enc...)
}

func bytesOf(b byte, n int) []byte {
	out := make([]byte, n)
	for i := range out {
		out[i] = b
	}
	return out
}

// ---------------------------------------------------------------------------------------
// Cosmos transactions
// ---------------------------------------------------------------------------------------

var cosmosClasses = []string{
	"valid-cosmos", "cosmos-msg-zoo-reflective", "cosmos-type-url-swap", "cosmos-any-bomb", "cosmos-dup-unknown-fields", "cosmos-huge-numbers",
	"cosmos-bad-addresses", "cosmos-auth-surgery", "cosmos-embedded-eth-msg", "cosmos-multi-msg",
}

func (g *gen) coins(hostile bool) sdk.Coins {
	r := g.r
	if !hostile {
		return sdk.NewCoins(sdk.NewCoin(vh.Denom, sdkmath.NewInt(int64(1+r.Intn(1_000_000)))))
	}
	return vh.Pick(r, []sdk.Coins{
		nil, {}, {sdk.Coin{Denom: vh.Denom, Amount: sdkmath.NewInt(-1)}}, {sdk.Coin{Denom: vh.Denom, Amount: sdkmath.ZeroInt()}},
		{sdk.Coin{Denom: vh.Denom, Amount: sdkmath.NewIntFromBigInt(max256)}}, {sdk.Coin{Denom: "", Amount: sdkmath.OneInt()}},
		{sdk.Coin{Denom: "x", Amount: sdkmath.OneInt()}}, {sdk.Coin{Denom: strings.Repeat("d", 200), Amount: sdkmath.OneInt()}},
		{sdk.Coin{Denom: vh.Denom, Amount: sdkmath.OneInt()}, sdk.Coin{Denom: vh.Denom, Amount: sdkmath.OneInt()}}, // duplicate denom
		{sdk.Coin{Denom: "zzz", Amount: sdkmath.OneInt()}, sdk.Coin{Denom: "aaa", Amount: sdkmath.OneInt()}},       // unsorted
		{sdk.Coin{Denom: vh.Denom}}, // nil amount
		sdk.NewCoins(sdk.NewCoin(vh.Denom, sdkmath.NewIntFromBigInt(vh.Ether(999_999)))),
	})
}

func (g *gen) addrStr(hostile bool, self *vh.Acct) string {
	r := g.r
	if !hostile {
		return vh.Pick(r, g.h.eoas).Bech32()
	}
	return vh.Pick(r, []string{"", "evm1", "garbage", self.Bech32(), strings.ToUpper(self.Bech32()), sdk.ValAddress(self.Addr.Bytes()).String(), sdk.MustBech32ifyAddressBytes("cosmos", self.Addr.Bytes()),
		sdk.MustBech32ifyAddressBytes("evm", r.Bytes(32)), sdk.MustBech32ifyAddressBytes("evm", []byte{1}), self.Addr.Hex(), g.h.c.Vals[0].Oper.String(), sdk.AccAddress(g.h.erc20.Bytes()).String(),
		sdk.AccAddress(vh.FeeCollectorAddr.Bytes()).String(), strings.Repeat("evm1", 100)})
}

// validMsg: well-formed messages of many modules, signed by s.
func (g *gen) validMsg(s *vh.Acct) sdk.Msg {
	r, h := g.r, g.h
	other := vh.Pick(r, h.eoas)
	val := vh.Pick(r, h.c.Vals).Oper.String()
	coin := sdk.NewCoin(vh.Denom, sdkmath.NewInt(int64(1+r.Intn(1_000_000))))
	gov := sdk.AccAddress(common.Address{}.Bytes()).String()
	if a, err := h.c.App.GovKeeper.GetAuthority(), error(nil); err == nil {
		gov = a
	}
	switch r.Intn(22) {
	case 0:
		return banktypes.NewMsgSend(s.Acc(), other.Acc(), sdk.NewCoins(coin))
	case 1:
		return &banktypes.MsgMultiSend{Inputs: []banktypes.Input{{Address: s.Bech32(), Coins: sdk.NewCoins(coin)}}, Outputs: []banktypes.Output{{Address: other.Bech32(), Coins: sdk.NewCoins(coin)}}}
	case 2:
		return stakingtypes.NewMsgDelegate(s.Bech32(), val, coin)
	case 3:
		return stakingtypes.NewMsgUndelegate(s.Bech32(), val, coin)
	case 4:
		return stakingtypes.NewMsgBeginRedelegate(s.Bech32(), h.c.Vals[0].Oper.String(), h.c.Vals[len(h.c.Vals)-1].Oper.String(), coin)
	case 5:
		return distrtypes.NewMsgWithdrawDelegatorReward(s.Bech32(), val)
	case 6:
		return distrtypes.NewMsgSetWithdrawAddress(s.Acc(), other.Acc())
	case 7:
		return distrtypes.NewMsgFundCommunityPool(sdk.NewCoins(coin), s.Bech32())
	case 8:
		m, err := govv1.NewMsgSubmitProposal([]sdk.Msg{banktypes.NewMsgSend(sdk.MustAccAddressFromBech32(gov), other.Acc(), sdk.NewCoins(coin))}, sdk.NewCoins(coin), s.Bech32(), "meta", "title", "summary", r.Bool())
		if err == nil {
			return m
		}
	case 9:
		return govv1.NewMsgVote(s.Acc(), uint64(1+r.Intn(3)), govv1.VoteOption(r.Intn(6)), "m")
	case 10:
		return govv1.NewMsgDeposit(s.Acc(), uint64(1+r.Intn(3)), sdk.NewCoins(coin))
	case 11:
		m, err := govv1beta1.NewMsgSubmitProposal(govv1beta1.NewTextProposal("t", "d"), sdk.NewCoins(coin), s.Acc())
		if err == nil {
			return m
		}
	case 12:
		exp := h.c.Time.Add(time.Hour)
		m, err := authz.NewMsgGrant(s.Acc(), other.Acc(), authz.NewGenericAuthorization(vh.Pick(r, h.msgURLs)), &exp)
		if err == nil {
			return m
		}
	case 13:
		m := authz.NewMsgExec(s.Acc(), []sdk.Msg{banktypes.NewMsgSend(other.Acc(), s.Acc(), sdk.NewCoins(coin))})
		return &m
	case 14:
		m, err := feegrant.NewMsgGrantAllowance(&feegrant.BasicAllowance{SpendLimit: sdk.NewCoins(coin)}, s.Acc(), other.Acc())
		if err == nil {
			return m
		}
	case 15:
		return vestingtypes.NewMsgCreateVestingAccount(s.Acc(), sdk.AccAddress(r.Bytes(20)), sdk.NewCoins(coin), h.c.Time.Unix()+int64(r.Intn(100000)), r.Bool())
	case 16:
		return slashingtypes.NewMsgUnjail(sdk.ValAddress(s.Addr.Bytes()).String())
	case 17:
		sig, _ := crypto.Sign(crypto.Keccak256([]byte(vauthtypes.MessageToSign)), other.Key)
		return &vauthtypes.MsgSubmitProofExternalOwnedAccount{Submitter: s.Bech32(), Account: other.Bech32(), Signature: "0x" + common.Bytes2Hex(sig)}
	case 18:
		return &cpctypes.MsgDeployErc20ContractRequest{Authority: s.Bech32(), Name: "T", Symbol: "T", Decimals: uint32(r.Intn(30)), MinDenom: vh.Pick(r, []string{"utest", vh.Denom, ""})}
	case 19:
		return &cpctypes.MsgDeployStakingContractRequest{Authority: s.Bech32(), Symbol: "S", Decimals: 18}
	case 20:
		return &evmtypes.MsgUpdateParams{Authority: vh.Pick(r, []string{gov, s.Bech32()}), Params: evmtypes.DefaultParams()}
	default:
		return &stakingtypes.MsgCancelUnbondingDelegation{DelegatorAddress: s.Bech32(), ValidatorAddress: val, Amount: coin, CreationHeight: h.c.Height - int64(r.Intn(3))}
	}
	return banktypes.NewMsgSend(s.Acc(), other.Acc(), sdk.NewCoins(coin))
}

func (g *gen) cosmosInput(class string) []byte {
	r, h := g.r, g.h
	s := g.sender()
	gas := uint64(vh.Pick(r, []int{200_000, 600_000}))
	body := func(msgs ...sdk.Msg) *txtypes.TxBody {
		b := &txtypes.TxBody{}
		for _, m := range msgs {
			b.Messages = append(b.Messages, anyOf(m))
		}
		return b
	}
	switch class {
	case "valid-cosmos":
		return g.rawTx(body(g.validMsg(s)), g.defaultFee(gas), []*vh.Acct{s}, nil)
	case "cosmos-multi-msg":
		n := 2 + r.Intn(4)
		var msgs []sdk.Msg
		for i := 0; i < n; i++ {
			msgs = append(msgs, g.validMsg(s))
		}
		return g.rawTx(body(msgs...), g.defaultFee(gas*2), []*vh.Acct{s}, nil)
	case "cosmos-msg-zoo-reflective":
		url := vh.Pick(r, h.msgURLs)
		m := g.reflectMsg(url, s, 0)
		signer := s
		if m != nil {
			if sg, _, err := h.c.Enc.Codec.GetMsgV1Signers(m); err == nil && len(sg) == 1 {
				for _, a := range h.eoas {
					if string(a.Acc()) == string(sg[0]) {
						signer = a
					}
				}
			}
		}
		b := &txtypes.TxBody{}
		if m != nil {
			bz, err := safeMarshal(m)
			if err == nil {
				b.Messages = []*codectypes.Any{{TypeUrl: url, Value: bz}}
			}
		}
		if len(b.Messages) == 0 {
			b.Messages = []*codectypes.Any{{TypeUrl: url, Value: r.Bytes(r.Intn(40))}}
		}
		return g.rawTx(b, g.defaultFee(gas), []*vh.Acct{signer}, nil)
	case "cosmos-type-url-swap":
		m1, m2 := g.validMsg(s), g.validMsg(s)
		b := body(m1, m2)
		switch r.Intn(4) {
		case 0:
			b.Messages[0].TypeUrl, b.Messages[1].TypeUrl = b.Messages[1].TypeUrl, b.Messages[0].TypeUrl
		case 1:
			b.Messages = b.Messages[:1]
			b.Messages[0].TypeUrl = vh.Pick(r, h.msgURLs)
		case 2:
			b.Messages = b.Messages[:1]
			b.Messages[0].TypeUrl = vh.Pick(r, []string{"", "/", "/unknown.Msg", "cosmos.bank.v1beta1.MsgSend", "/google.protobuf.Any", "/cosmos.bank.v1beta1.QueryBalanceRequest", "/cosmos.crypto.secp256k1.PubKey", urlExtEth, "/ethermint.evm.v1.MsgEthereumTxResponse"})
		default:
			b.Messages[0].TypeUrl = urlMsgEth // a Cosmos message labelled as an Ethereum one
		}
		return g.rawTx(b, g.defaultFee(gas), []*vh.Acct{s}, nil)
	case "cosmos-any-bomb":
		depth := vh.Pick(r, []int{2, 5, 9, 10, 11, 25, 60})
		var inner sdk.Msg = banktypes.NewMsgSend(s.Acc(), s.Acc(), sdk.NewCoins(sdk.NewCoin(vh.Denom, sdkmath.OneInt())))
		kind := r.Intn(3)
		doublings := 0
		for i := 0; i < depth; i++ {
			switch kind {
			case 0:
				m := authz.NewMsgExec(s.Acc(), []sdk.Msg{inner})
				inner = &m
			case 1:
				m, err := govv1.NewMsgSubmitProposal([]sdk.Msg{inner}, nil, s.Bech32(), "", "t", "s", false)
				if err != nil {
					break
				}
				inner = m
			default:
				if i%2 == 0 && doublings < 10 { // at most 2^10 leaves: deeper levels nest without doubling (tx stays < 1 MiB)
					doublings++
					m := authz.NewMsgExec(s.Acc(), []sdk.Msg{inner, inner})
					inner = &m
				} else {
					m, err := govv1.NewMsgSubmitProposal([]sdk.Msg{inner}, nil, s.Bech32(), "", "t", "s", false)
					if err == nil {
						inner = m
					}
				}
			}
		}
		b := body(inner)
		if r.Chance(1, 4) { // Any directly inside Any
			cur := b.Messages[0]
			for i := 0; i < depth; i++ {
				cur = &codectypes.Any{TypeUrl: "/google.protobuf.Any", Value: mustProto(cur)}
			}
			b.Messages[0] = cur
		}
		return g.rawTx(b, g.defaultFee(2_000_000), []*vh.Acct{s}, nil)
	case "cosmos-dup-unknown-fields":
		mut := func(bz []byte) []byte {
			switch r.Intn(6) {
			case 0: // unknown critical field (number < 1024), varint
				return append(bz, 0xb8, 0x06, 0x01) // field 103 varint
			case 1: // unknown non-critical field (bit 11 set)
				return append(bz, 0x82, 0x40, 0x02, 0xaa, 0xbb) // field 1024 bytes
			case 2: // duplicate the whole content (repeats every field)
				return append(append([]byte{}, bz...), bz...)
			case 3: // field with wrong wire type for memo (field 2 as varint)
				return append(bz, 0x10, 0x05)
			case 4: // truncated length-delimited field
				return append(bz, 0x0a, 0xff, 0xff, 0x03)
			default: // group wire types (deprecated) and a 10-byte varint
				return append(bz, 0x0b, 0x0c, 0x18, 0xff, 0xff, 0xff, 0xff, 0xff, 0xff, 0xff, 0xff, 0xff, 0x7f)
			}
		}
		o := &rawOpts{}
		if r.Bool() {
			o.bodyMut = mut
		} else {
			o.authMut = mut
		}
		bz := g.rawTx(body(g.validMsg(s)), g.defaultFee(gas), []*vh.Acct{s}, o)
		if r.Chance(1, 4) { // unknown field on the outer TxRaw
			bz = mut(bz)
		}
		return bz
	case "cosmos-huge-numbers":
		fee := &txtypes.Fee{GasLimit: vh.Pick(r, []uint64{0, 1, math.MaxInt64, math.MaxUint64, 200000}), Amount: g.coins(true)}
		b := body(banktypes.NewMsgSend(s.Acc(), vh.Pick(r, h.eoas).Acc(), g.coins(true)))
		b.TimeoutHeight = vh.Pick(r, []uint64{0, 1, math.MaxUint64, uint64(h.c.Height)})
		b.Memo = vh.Pick(r, []string{"", strings.Repeat("x", 257), strings.Repeat("\xff", 50)})
		o := &rawOpts{seqDelta: vh.Pick(r, []int64{0, 0, -1, 1, math.MaxInt64})}
		if r.Chance(1, 3) {
			n := vh.Pick(r, []uint64{0, math.MaxUint64, 9999})
			o.accNum = &n
		}
		if r.Chance(1, 4) {
			fee.Amount = sdk.NewCoins(sdk.NewCoin(vh.Denom, sdkmath.NewIntFromBigInt(vh.Ether(1))))
		}
		return g.rawTx(b, fee, []*vh.Acct{s}, o)
	case "cosmos-bad-addresses":
		var m sdk.Msg
		switch r.Intn(5) {
		case 0:
			m = &banktypes.MsgSend{FromAddress: s.Bech32(), ToAddress: g.addrStr(true, s), Amount: g.coins(false)}
		case 1:
			m = &banktypes.MsgSend{FromAddress: g.addrStr(true, s), ToAddress: s.Bech32(), Amount: g.coins(false)}
		case 2:
			m = &stakingtypes.MsgDelegate{DelegatorAddress: s.Bech32(), ValidatorAddress: g.addrStr(true, s), Amount: sdk.NewCoin(vh.Denom, sdkmath.OneInt())}
		case 3:
			m = &distrtypes.MsgSetWithdrawAddress{DelegatorAddress: s.Bech32(), WithdrawAddress: g.addrStr(true, s)}
		default:
			m = &vauthtypes.MsgSubmitProofExternalOwnedAccount{Submitter: s.Bech32(), Account: g.addrStr(true, s), Signature: vh.Pick(r, []string{"", "0x", "0xzz", "0x" + strings.Repeat("00", 65), "0x" + strings.Repeat("ff", 64)})}
		}
		fee := g.defaultFee(gas)
		fee.Payer, fee.Granter = vh.Pick(r, []string{"", "", g.addrStr(true, s)}), vh.Pick(r, []string{"", "", g.addrStr(true, s)})
		return g.rawTx(body(m), fee, []*vh.Acct{s}, nil)
	case "cosmos-auth-surgery":
		o := vh.Pick(r, []*rawOpts{{noSign: true}, {badSig: true}, {extraSigs: 1 + r.Intn(3)}, {chainID: "other_1-1"}, {signMode: signing.SignMode_SIGN_MODE_LEGACY_AMINO_JSON},
			{signMode: signing.SignMode_SIGN_MODE_TEXTUAL}, {signMode: signing.SignMode(77)}, {seqDelta: 5}})
		signers := []*vh.Acct{s}
		if r.Chance(1, 4) {
			signers = append(signers, vh.Pick(r, h.eoas))
		}
		fee := g.defaultFee(gas)
		if r.Chance(1, 4) {
			fee.Amount = nil
		}
		b := body(g.validMsg(s))
		if r.Chance(1, 4) {
			b.ExtensionOptions = []*codectypes.Any{{TypeUrl: vh.Pick(r, []string{"/ethermint.types.v1.ExtensionOptionDynamicFeeTx", urlExtEth, "/x.y"}), Value: r.Bytes(r.Intn(20))}}
		}
		return g.rawTx(b, fee, signers, o)
	case "cosmos-embedded-eth-msg":
		// a signed Cosmos transaction carrying a MsgEthereumTx (valid or garbled) next to / instead of Cosmos messages
		p := mustBin(g.validEthTx(s))
		if r.Bool() {
			p = p[:1+r.Intn(len(p)-1)]
		}
		em := &evmtypes.MsgEthereumTx{MarshalledTx: p, From: vh.Pick(r, []string{s.Bech32(), "bad", ""})}
		b := &txtypes.TxBody{Messages: []*codectypes.Any{{TypeUrl: urlMsgEth, Value: mustProto(em)}}}
		if r.Bool() {
			b.Messages = append(b.Messages, anyOf(g.validMsg(s)))
		}
		if r.Chance(1, 3) { // hidden inside authz exec
			m := authz.MsgExec{Grantee: s.Bech32(), Msgs: []*codectypes.Any{{TypeUrl: urlMsgEth, Value: mustProto(em)}}}
			b.Messages = []*codectypes.Any{anyOf(&m)}
		}
		return g.rawTx(b, g.defaultFee(gas), []*vh.Acct{s}, nil)
	}
	panic("unknown cosmos class " + class)
}

func safeMarshal(m proto.Message) (bz []byte, err error) {
	defer func() {
		if r := recover(); r != nil {
			err = fmt.Errorf("marshal panic: %v", r)
		}
	}()
	return proto.Marshal(m)
}

// reflectMsg instantiates the registered message type behind url and fills every field with
// boundary / hostile values by reflection (strings biased towards the signer's address so that a
// good share of the results is correctly signed and reaches the message handlers).
func (g *gen) reflectMsg(url string, s *vh.Acct, depth int) (m proto.Message) {
	defer func() {
		if r := recover(); r != nil {
			m = nil
		}
	}()
	msg, err := g.h.c.Enc.InterfaceRegistry.Resolve(url)
	if err != nil || msg == nil {
		return nil
	}
	v := reflect.ValueOf(msg)
	if v.Kind() != reflect.Ptr || v.IsNil() {
		v = reflect.New(reflect.TypeOf(msg).Elem())
		msg = v.Interface().(proto.Message)
	}
	g.fill(v.Elem(), s, depth)
	return msg
}

var (
	typInt   = reflect.TypeOf(sdkmath.Int{})
	typDec   = reflect.TypeOf(sdkmath.LegacyDec{})
	typTime  = reflect.TypeOf(time.Time{})
	typAny   = reflect.TypeOf(codectypes.Any{})
	typUint  = reflect.TypeOf(sdkmath.Uint{})
	typCoins = reflect.TypeOf(sdk.Coins{})
)

func (g *gen) fill(v reflect.Value, s *vh.Acct, depth int) {
	r := g.r
	if !v.CanSet() {
		return
	}
	switch v.Type() {
	case typInt:
		v.Set(reflect.ValueOf(vh.Pick(r, []sdkmath.Int{sdkmath.ZeroInt(), sdkmath.OneInt(), sdkmath.NewInt(-1), sdkmath.NewIntFromBigInt(max256), sdkmath.NewInt(1_000_000), {}})))
		return
	case typDec:
		v.Set(reflect.ValueOf(vh.Pick(r, []sdkmath.LegacyDec{sdkmath.LegacyZeroDec(), sdkmath.LegacyOneDec(), sdkmath.LegacyNewDec(-1), sdkmath.LegacyNewDecWithPrec(5, 1), sdkmath.LegacyNewDec(1 << 40), {}})))
		return
	case typUint:
		v.Set(reflect.ValueOf(sdkmath.NewUint(uint64(r.Intn(5)))))
		return
	case typTime:
		v.Set(reflect.ValueOf(vh.Pick(r, []time.Time{{}, time.Unix(0, 0).UTC(), g.h.c.Time, g.h.c.Time.Add(time.Hour), time.Unix(253402300799, 0).UTC(), time.Unix(-62135596800, 0).UTC()})))
		return
	case typAny:
		v.Set(reflect.ValueOf(*g.randAny(s, depth)))
		return
	case typCoins:
		v.Set(reflect.ValueOf(g.coins(r.Chance(1, 2))))
		return
	}
	switch v.Kind() {
	case reflect.String:
		switch r.Intn(10) {
		case 0, 1, 2, 3, 4:
			v.SetString(s.Bech32())
		case 5:
			v.SetString(vh.Pick(r, g.h.eoas).Bech32())
		case 6:
			v.SetString(vh.Pick(r, g.h.c.Vals).Oper.String())
		case 7:
			v.SetString(g.addrStr(true, s))
		case 8:
			v.SetString(vh.Pick(r, []string{"", vh.Denom, "1", "transfer", "channel-0", "07-tendermint-0", "0x00", strings.Repeat("A", 5000), "\x00", "{}", "-1"}))
		default:
			if a, err := g.h.c.App.GovKeeper.GetAuthority(), error(nil); err == nil {
				v.SetString(a)
			}
		}
	case reflect.Bool:
		v.SetBool(r.Bool())
	case reflect.Int32, reflect.Int64, reflect.Int:
		x := vh.Pick(r, []int64{0, 1, -1, 2, math.MaxInt32, math.MinInt32, math.MaxInt64, math.MinInt64, g.h.c.Height, 1 << 40})
		if v.Kind() == reflect.Int32 {
			x = int64(int32(x))
		}
		v.SetInt(x)
	case reflect.Uint32, reflect.Uint64, reflect.Uint:
		x := vh.Pick(r, []uint64{0, 1, 2, 18, math.MaxUint32, math.MaxInt64, math.MaxUint64, uint64(g.h.c.Height)})
		if v.Kind() == reflect.Uint32 {
			x = uint64(uint32(x))
		}
		v.SetUint(x)
	case reflect.Float32, reflect.Float64:
		v.SetFloat(vh.Pick(r, []float64{0, 1, -1, math.Inf(1), math.NaN()}))
	case reflect.Slice:
		if v.Type().Elem().Kind() == reflect.Uint8 {
			v.SetBytes(r.Bytes(vh.Pick(r, []int{0, 1, 20, 32, 33, 64, 300})))
			return
		}
		if depth > 3 {
			return
		}
		n := vh.Pick(r, []int{0, 1, 1, 2, 3})
		sl := reflect.MakeSlice(v.Type(), n, n)
		for i := 0; i < n; i++ {
			g.fill(sl.Index(i), s, depth+1)
		}
		v.Set(sl)
	case reflect.Ptr:
		if depth > 4 || r.Chance(1, 6) {
			return // leave nil
		}
		if v.Type().Elem().Kind() != reflect.Struct {
			return
		}
		nv := reflect.New(v.Type().Elem())
		g.fill(nv.Elem(), s, depth+1)
		v.Set(nv)
	case reflect.Struct:
		if depth > 5 {
			return
		}
		for i := 0; i < v.NumField(); i++ {
			f := v.Field(i)
			if v.Type().Field(i).PkgPath != "" { // unexported
				continue
			}
			g.fill(f, s, depth+1)
		}
	case reflect.Map, reflect.Interface:
		// oneof wrappers and maps stay empty
	}
}

func (g *gen) randAny(s *vh.Acct, depth int) *codectypes.Any {
	r := g.r
	if depth > 3 || r.Chance(1, 3) {
		return &codectypes.Any{TypeUrl: vh.Pick(r, append([]string{"", "/x", "/cosmos.crypto.ed25519.PubKey", "/cosmos.crypto.secp256k1.PubKey", "/ethermint.crypto.v1.ethsecp256k1.PubKey",
			"/cosmos.bank.v1beta1.SendAuthorization", "/cosmos.authz.v1beta1.GenericAuthorization", "/cosmos.feegrant.v1beta1.BasicAllowance", "/ibc.lightclients.tendermint.v1.ClientState",
			"/cosmos.gov.v1beta1.TextProposal", "/cosmos.params.v1beta1.ParameterChangeProposal", "/cosmos.evidence.v1beta1.Equivocation"}, g.h.msgURLs[:4]...)), Value: r.Bytes(vh.Pick(r, []int{0, 2, 32, 33, 80}))}
	}
	url := vh.Pick(r, g.h.msgURLs)
	m := g.reflectMsg(url, s, depth+2)
	if m == nil {
		return &codectypes.Any{TypeUrl: url}
	}
	bz, err := safeMarshal(m)
	if err != nil {
		return &codectypes.Any{TypeUrl: url}
	}
	return &codectypes.Any{TypeUrl: url, Value: bz}
}

// ---------------------------------------------------------------------------------------
// byte-level classes
// ---------------------------------------------------------------------------------------

var byteClasses = []string{"random-bytes", "bytes-empty-or-tiny", "bytes-huge", "valid-tx-bitflip", "valid-tx-truncated", "valid-tx-spliced"}

func (g *gen) byteInput(class string) []byte {
	r := g.r
	base := func() []byte {
		if r.Bool() {
			s := g.sender()
			return g.envelope(mustBin(g.validEthTx(s)), s, nil)
		}
		s := g.sender()
		b := &txtypes.TxBody{Messages: []*codectypes.Any{anyOf(g.validMsg(s))}}
		return g.rawTx(b, g.defaultFee(300000), []*vh.Acct{s}, nil)
	}
	switch class {
	case "random-bytes":
		return r.Bytes(vh.Pick(r, []int{1, 2, 7, 16, 40, 100, 333, 1024, 4096}))
	case "bytes-empty-or-tiny":
		return vh.Pick(r, [][]byte{{}, {0}, {0x0a}, {0x0a, 0x00}, {0x0a, 0x00, 0x12, 0x00}, {0xff}, {0x12, 0x02, 0x08, 0x01}, {0x1a, 0x00}})
	case "bytes-huge":
		n := vh.Pick(r, []int{100_000, 1_000_000, 3_000_000})
		if r.Bool() {
			return r.Bytes(n)
		}
		// a valid prefix followed by a huge tail inside a length-delimited field
		return append(append([]byte{0x0a}, varint(uint64(n))...), make([]byte, n)...)
	case "valid-tx-bitflip":
		b := base()
		for i := 0; i < 1+r.Intn(5); i++ {
			b[r.Intn(len(b))] ^= byte(1 << r.Intn(8))
		}
		return b
	case "valid-tx-truncated":
		b := base()
		return b[:r.Intn(len(b))]
	case "valid-tx-spliced":
		a, b := base(), base()
		i, j := r.Intn(len(a)), r.Intn(len(b))
		return append(append([]byte{}, a[:i]...), b[j:]...)
	}
	panic("unknown byte class " + class)
}

func varint(v uint64) []byte {
	var out []byte
	for v >= 0x80 {
		out = append(out, byte(v)|0x80)
		v >>= 7
	}
	return append(out, byte(v))
}
