package c20

import (
	"runtime/debug"
	"bytes"
	"context"
	"encoding/binary"
	"encoding/hex"
	"fmt"
	"math/big"
	"strings"

	errorsmod "cosmossdk.io/errors"
	abci "github.com/cometbft/cometbft/abci/types"
	"github.com/ethereum/go-ethereum/common"
	ethtypes "github.com/ethereum/go-ethereum/core/types"

	evmtypes "github.com/EscanBE/evermint/v12/x/evm/types"

	"verifharness/vh"
)

type ethTxAlias = ethtypes.Transaction

func newUnsignedLegacy(nonce uint64, to *common.Address, price *big.Int) *ethtypes.Transaction {
	return ethtypes.NewTx(&ethtypes.LegacyTx{Nonce: nonce, To: to, Gas: 21000, GasPrice: price, Value: new(big.Int)})
}

// item is one hostile input with its bookkeeping.
type item struct {
	Idx     int
	Entry   string // CheckTx | CheckTx-Recheck | Simulate | PrepareProposal | ProcessProposal | FinalizeBlock | Query
	Class   string // mutation class (full)
	EvClass string // mutation class as counted in the evidence
	Bytes   []byte
	Query   *hquery
}

func encodeItems(items []*item) []byte {
	var b bytes.Buffer
	for _, it := range items {
		var l [4]byte
		binary.BigEndian.PutUint32(l[:], uint32(len(it.Bytes)))
		b.Write(l[:])
		b.Write(it.Bytes)
	}
	return b.Bytes()
}

func classesOf(items []*item) string {
	var s []string
	for _, it := range items {
		s = append(s, it.Class)
	}
	return strings.Join(s, ",")
}

// driver state of one hostile child
type driver struct {
	rec     *rec
	h       *hworld
	trk     *tracker
	seed    uint64
	batch   int
	combos  []cpcCombo
	queues  map[string][]*item
	qsize   map[string]int
	fbGen   *gen // nonce bookkeeping of the FinalizeBlock queue
	flushes int
	rebuild func() *hworld
}

func hexTrunc(b []byte, n int) string {
	if len(b) > n {
		return hex.EncodeToString(b[:n]) + fmt.Sprintf("…(%d bytes)", len(b))
	}
	return hex.EncodeToString(b)
}

func (d *driver) witness(items []*item, extra map[string]any) map[string]any {
	var ins []map[string]any
	for _, it := range items {
		m := map[string]any{"index": it.Idx, "class": it.Class, "input_hex": hexTrunc(it.Bytes, 20000)}
		if it.Query != nil {
			m["path"], m["height"], m["prove"], m["input_hex"] = it.Query.Path, it.Query.Height, it.Query.Prove, hexTrunc(it.Query.Data, 20000)
		}
		ins = append(ins, m)
	}
	w := map[string]any{"batch": d.batch, "inputs": ins, "chain_height": d.h.c.Height}
	for k, v := range extra {
		w[k] = v
	}
	return w
}

// guarded runs one ABCI call. A panic that escapes the call is the violation the property names.
func (d *driver) guarded(entry string, items []*item, f func()) (escaped bool) {
	first := items[0]
	d.trk.before(first.Idx, entry, classesOf(items), func() []byte {
		if first.Query != nil {
			return first.Query.encode()
		}
		if len(items) == 1 {
			return first.Bytes
		}
		return encodeItems(items)
	}())
	defer func() {
		if r := recover(); r != nil {
			escaped = true
			d.rec.Violation("panic-escaped:"+entry+":"+first.EvClass, d.witness(items, map[string]any{"entry": entry, "panic": trunc(fmt.Sprint(r), 2000)}))
			for _, it := range items {
				d.done(it, entry, "panic-escaped")
			}
		}
	}()
	f()
	return false
}

func (d *driver) done(it *item, entry, result string) {
	r := d.rec
	r.Eval(1)
	r.Count("inputs_total", 1)
	r.Count("in:"+entry+":"+it.EvClass, 1)
	ok := "error-returned"
	if result == "ok" || result == "accepted" || result == "kept" || result == "ACCEPT" || strings.HasPrefix(result, "ok-") {
		ok = "success"
	}
	r.Count("outcome:"+entry+":"+ok, 1)
	r.Nontrivial(entry + "|" + it.EvClass + "|" + result)
	r.Distinct("mutation_class", it.EvClass)
	r.Distinct("entry_x_class", entry+"|"+it.EvClass)
	if strings.HasPrefix(it.Class, "cpc-") {
		r.Distinct("cpc_cells", it.Class+"|"+entry)
	}
	if i := strings.Index(result, ":"); i > 0 {
		r.Distinct("error_code", result[i+1:])
	}
	d.trk.after(it.Idx, entry, it.Class, result)
}

func codeClass(codespace string, code uint32) string {
	if code == 0 {
		return "ok"
	}
	if codespace == "" {
		codespace = "-"
	}
	return fmt.Sprintf("failed:%s/%d", codespace, code)
}

func (d *driver) checkTx(it *item, recheck bool) {
	entry, typ := "CheckTx", abci.CheckTxType_New
	if recheck {
		entry, typ = "CheckTx-Recheck", abci.CheckTxType_Recheck
	}
	var res *abci.ResponseCheckTx
	var err error
	if d.guarded(entry, []*item{it}, func() { res, err = d.h.c.App.CheckTx(&abci.RequestCheckTx{Tx: it.Bytes, Type: typ}) }) {
		return
	}
	switch {
	case err != nil:
		d.done(it, entry, "failed:abci-error")
	case res.Code == 0:
		d.done(it, entry, "accepted")
	default:
		d.done(it, entry, codeClass(res.Codespace, res.Code))
	}
}

func (d *driver) simulate(it *item) {
	var err error
	if d.guarded("Simulate", []*item{it}, func() { _, _, err = d.h.c.App.Simulate(it.Bytes) }) {
		return
	}
	if err == nil {
		d.done(it, "Simulate", "ok")
		return
	}
	cs, code, _ := errorsmod.ABCIInfo(err, false)
	d.done(it, "Simulate", codeClass(cs, code))
}

func (d *driver) query(it *item) {
	q := it.Query
	var res *abci.ResponseQuery
	var err error
	if d.guarded("Query", []*item{it}, func() {
		res, err = d.h.c.App.Query(context.Background(), &abci.RequestQuery{Path: q.Path, Data: q.Data, Height: q.Height, Prove: q.Prove})
	}) {
		return
	}
	switch {
	case err != nil:
		d.done(it, "Query", "failed:abci-error")
	case res.Code == 0:
		result := "ok"
		if strings.HasSuffix(q.Path, "/EthCall") {
			var out evmtypes.MsgEthereumTxResponse
			if out.Unmarshal(res.Value) == nil {
				if out.VmError == "" {
					result = "ok-vm-success"
				} else {
					result = "ok-vm-error"
				}
			}
		}
		d.done(it, "Query", result)
	default:
		d.done(it, "Query", codeClass(res.Codespace, res.Code))
	}
}

func (d *driver) proposalHeader() (int64, []byte) {
	c := d.h.c
	vals := c.CurrentValidators()
	return c.Height + 1, vals[0].Address
}

func (d *driver) prepare(items []*item) {
	c := d.h.c
	var txs [][]byte
	for _, it := range items {
		txs = append(txs, it.Bytes)
	}
	height, prop := d.proposalHeader()
	maxBytes := vh.Pick(d.h.r, []int64{1, 100, 10_000, 4_000_000, 100_000_000})
	var res *abci.ResponsePrepareProposal
	var err error
	if d.guarded("PrepareProposal", items, func() {
		res, err = c.App.PrepareProposal(&abci.RequestPrepareProposal{MaxTxBytes: maxBytes, Txs: txs, Height: height, Time: c.Time.Add(c.Cfg.BlockStep), ProposerAddress: prop})
	}) {
		return
	}
	if err != nil {
		d.rec.Violation("prepare-proposal-returned-error", d.witness(items, map[string]any{"error": err.Error(), "max_tx_bytes": maxBytes}))
	}
	kept := map[string]bool{}
	total := int64(0)
	if res != nil {
		for _, t := range res.Txs {
			kept[string(t)] = true
			total += int64(len(t))
		}
	}
	d.rec.Count("prepare_proposal_calls", 1)
	for _, it := range items {
		if kept[string(it.Bytes)] {
			d.done(it, "PrepareProposal", "kept")
		} else {
			d.done(it, "PrepareProposal", "dropped")
		}
	}
}

func (d *driver) process(items []*item) {
	c := d.h.c
	var txs [][]byte
	for _, it := range items {
		txs = append(txs, it.Bytes)
	}
	height, prop := d.proposalHeader()
	var res *abci.ResponseProcessProposal
	var err error
	if d.guarded("ProcessProposal", items, func() {
		res, err = c.App.ProcessProposal(&abci.RequestProcessProposal{Txs: txs, Height: height, Time: c.Time.Add(c.Cfg.BlockStep), ProposerAddress: prop,
			Hash: bytesOf(byte(height), 32), NextValidatorsHash: bytesOf(1, 32)})
	}) {
		return
	}
	status := "REJECT"
	if err != nil {
		d.rec.Violation("process-proposal-returned-error", d.witness(items, map[string]any{"error": err.Error()}))
		status = "failed:abci-error"
	} else if res.Status == abci.ResponseProcessProposal_ACCEPT {
		status = "ACCEPT"
	}
	d.rec.Count("process_proposal_calls", 1)
	for _, it := range items {
		d.done(it, "ProcessProposal", status)
	}
}

// finalize executes the queued hostile transactions as one block: one result per transaction,
// no error, no panic; afterwards the chain must still run blocks.
func (d *driver) finalize(items []*item) {
	c := d.h.c
	var txs [][]byte
	for _, it := range items {
		txs = append(txs, it.Bytes)
	}
	var br *vh.BlockResult
	if d.guarded("FinalizeBlock", items, func() { br = c.NextBlock(txs, nil) }) {
		// the application instance is in an undefined state after an escaped panic: continue on a fresh chain
		d.h.c.Cleanup()
		d.h = d.rebuild()
		d.fbGen = &gen{h: d.h, pending: map[common.Address]uint64{}}
		return
	}
	d.rec.Count("finalize_block_calls", 1)
	d.fbGen.pending = map[common.Address]uint64{}
	if br.Err != nil {
		d.rec.Violation("finalize-block-failed:hostile-block:"+reasonClass(br.Err.Error()), d.witness(items, map[string]any{"error": trunc(br.Err.Error(), 2000)}))
		for _, it := range items {
			d.done(it, "FinalizeBlock", "failed:finalize-error")
		}
		d.h.c.Cleanup()
		d.h = d.rebuild()
		d.fbGen = &gen{h: d.h, pending: map[common.Address]uint64{}}
		return
	}
	results := br.TxResults()
	if len(br.Res.TxResults) != len(txs)+1 || len(results) != len(txs) { // +1: vh's sentinel
		d.rec.Violation("finalize-block-result-count-mismatch", d.witness(items, map[string]any{"txs": len(txs), "results": len(br.Res.TxResults) - 1}))
	}
	var eth []*evmtypes.MsgEthereumTx
	for i, it := range items {
		if i >= len(results) {
			break
		}
		res := results[i]
		d.done(it, "FinalizeBlock", codeClass(res.Codespace, res.Code))
		if vh.HasEvent(res, "ethereum_tx") {
			if tx, err := c.Enc.TxConfig.TxDecoder()(it.Bytes); err == nil && len(tx.GetMsgs()) == 1 {
				if m, ok := tx.GetMsgs()[0].(*evmtypes.MsgEthereumTx); ok {
					eth = append(eth, m)
				}
			}
		}
	}
	if len(eth) > 0 {
		d.h.lastEth = eth
	}
	d.h.lastRec.Height, d.h.lastRec.Hash = br.Height, br.Req.Hash
	d.flushes++
	if d.flushes%4 == 0 {
		d.health(items)
	}
}

// health: a plain transfer from the dedicated healthy sender must succeed in the next block.
func (d *driver) health(after []*item) {
	c, hs := d.h.c, d.h.healthy
	to := d.h.eoas[0].Addr
	bz, _ := c.EthTx(hs, vh.LegacyTx(c.Nonce(hs.Addr), &to, big.NewInt(1), 21000, d.h.price(), nil))
	it := &item{Idx: -1, Entry: "FinalizeBlock", Class: "health-transfer", EvClass: "health-transfer", Bytes: bz}
	var br *vh.BlockResult
	esc := false
	func() {
		defer func() {
			if r := recover(); r != nil {
				esc = true
				d.rec.Violation("panic-escaped:FinalizeBlock:block-after-hostile-block", d.witness(after, map[string]any{"panic": trunc(fmt.Sprint(r), 2000)}))
			}
		}()
		br = c.NextBlock([][]byte{bz}, nil)
	}()
	d.rec.Count("health_blocks", 1)
	if esc {
		d.h.c.Cleanup()
		d.h = d.rebuild()
		d.fbGen = &gen{h: d.h, pending: map[common.Address]uint64{}}
		return
	}
	_ = it
	if br.Err != nil {
		d.rec.Violation("finalize-block-failed:block-after-hostile-block:"+reasonClass(br.Err.Error()), d.witness(after, map[string]any{"error": trunc(br.Err.Error(), 2000)}))
		return
	}
	if res := br.TxResults()[0]; res.Code != 0 {
		d.rec.Violation("chain-unhealthy-after-hostile-block", d.witness(after, map[string]any{"health_tx_code": res.Code, "health_tx_log": trunc(res.Log, 500)}))
	}
}

func reasonClass(msg string) string {
	m := strings.ToLower(msg)
	switch {
	case strings.Contains(m, "divide by zero") || strings.Contains(m, "division by zero"):
		return "division-by-zero"
	case strings.Contains(m, "int64() out of bound"):
		return "int64-out-of-bound"
	case strings.Contains(m, "nil pointer"):
		return "nil-pointer"
	case strings.Contains(m, "index out of range") || strings.Contains(m, "slice bounds"):
		return "index-out-of-range"
	case strings.Contains(m, "receipt not found"):
		return "receipt-not-found"
	case strings.Contains(m, "invalid height"):
		return "invalid-height"
	case strings.Contains(m, "overflow"):
		return "overflow"
	default:
		return "other"
	}
}

func trunc(s string, n int) string {
	if len(s) > n {
		return s[:n] + "…"
	}
	return s
}

// enqueue adds an input to a block-shaped entry and flushes when the drawn size is reached.
func (d *driver) enqueue(it *item, r *vh.RNG) {
	q := it.Entry
	if len(d.queues[q]) == 0 {
		d.qsize[q] = 1 + r.Intn(5)
	}
	d.queues[q] = append(d.queues[q], it)
	if len(d.queues[q]) >= d.qsize[q] {
		d.flush(q)
	}
}

func (d *driver) flush(q string) {
	items := d.queues[q]
	d.queues[q] = nil
	if len(items) == 0 {
		return
	}
	switch q {
	case "PrepareProposal":
		d.prepare(items)
	case "ProcessProposal":
		d.process(items)
	case "FinalizeBlock":
		d.finalize(items)
	}
}

// cpcItem turns a cell of the precompile enumeration into an input.
func (d *driver) cpcItem(idx int, r *vh.RNG, combo cpcCombo) *item {
	h := d.h
	it := &item{Idx: idx, Class: combo.class(), EvClass: combo.evClass()}
	data := cpcData(h, r, combo)
	to := cpcTarget(h, combo)
	g := &gen{h: h, r: r, pending: map[common.Address]uint64{}}
	if combo.Mode == "deliver" {
		g = d.fbGen
		g.r = r
	}
	if combo.Mode == "ethcall" {
		it.Entry = "Query"
		from := vh.Pick(r, h.eoas).Addr
		args := fmt.Sprintf(`{"from":"%s","to":"%s","gas":"0x2dc6c0","data":"0x%x"}`, from.Hex(), to.Hex(), data)
		it.Query = &hquery{Class: it.Class, Path: "/ethermint.evm.v1.Query/EthCall", Data: ethCallReq(args, 25_000_000)}
		return it
	}
	// one sender per queued transaction so that nonces never collide inside a block
	s := h.eoas[len(d.queues["FinalizeBlock"])%len(h.eoas)]
	if combo.Mode != "deliver" {
		s = vh.Pick(r, h.eoas)
	}
	tx := vh.SignEth(s, vh.LegacyTx(g.nonce(s), &to, nil, 3_000_000, h.price(), data))
	it.Bytes = g.envelope(mustBin(tx), s, nil)
	switch combo.Mode {
	case "deliver":
		it.Entry = "FinalizeBlock"
	case "checktx":
		it.Entry = "CheckTx"
	default:
		it.Entry = "Simulate"
	}
	return it
}

var txEntries = []string{"CheckTx", "CheckTx", "CheckTx-Recheck", "Simulate", "Simulate", "PrepareProposal", "ProcessProposal", "FinalizeBlock", "FinalizeBlock", "FinalizeBlock"}

func childHostile(rec *rec, seed uint64, batch, start, count int, hangProbe bool) {
	mode := "hostile"
	if hangProbe {
		mode = "hangprobe"
	}
	build := func() *hworld {
		r := derive(seed, "hostile-world", batch)
		h := newHWorld(r, vh.Config{Seed: r.U64(), NumVals: 2, MaxGas: -1}, 8)
		if err := h.deployBasics(4); err != nil {
			panic("c20: hostile world setup failed: " + err.Error())
		}
		return h
	}
	d := &driver{rec: rec, seed: seed, batch: batch, combos: cpcCombos(), queues: map[string][]*item{}, qsize: map[string]int{}, rebuild: build}
	d.h = build()
	d.fbGen = &gen{h: d.h, pending: map[common.Address]uint64{}}
	d.trk = newTracker(mode, batch)
	defer d.trk.close()
	rec.Max("cpc_cells_enumerable", int64(len(d.combos)))
	allTx := append(append(append([]string{}, ethClasses...), cosmosClasses...), byteClasses...)
	for idx := start; idx < count; idx++ {
		r := derive(seed, fmt.Sprintf("hostile-%d", batch), idx)
		if hangProbe {
			g := &gen{h: d.h, r: r, pending: map[common.Address]uint64{}}
			cl := hangProbeClasses[idx%len(hangProbeClasses)]
			q := g.query(cl)
			d.query(&item{Idx: idx, Entry: "Query", Class: cl, EvClass: cl, Query: q})
			continue
		}
		sel := idx % 20
		switch {
		case sel < 7: // the precompile enumeration, walked in global input order
			k := (batch*count+idx)/20*7 + sel
			combo := d.combos[k%len(d.combos)]
			it := d.cpcItem(idx, r, combo)
			switch it.Entry {
			case "Query":
				d.query(it)
			case "CheckTx":
				d.checkTx(it, false)
			case "Simulate":
				d.simulate(it)
			default:
				d.enqueue(it, r)
			}
		case sel < 16: // transaction-shaped inputs
			class := vh.Pick(r, allTx)
			entry := vh.Pick(r, txEntries)
			g := &gen{h: d.h, r: r, pending: map[common.Address]uint64{}}
			if entry == "FinalizeBlock" {
				g = d.fbGen
				g.r = r
			}
			it := &item{Idx: idx, Entry: entry, Class: class, EvClass: class}
			func() {
				defer func() {
					if p := recover(); p != nil { // generator trouble is the monitor's, not the application's
						rec.Count("generator_panics", 1)
						rec.Note("generator panic in class %s: %v\n%s", class, p, trunc(string(debug.Stack()), 1800))
						it.Bytes = r.Bytes(10)
					}
				}()
				switch {
				case contains(ethClasses, class):
					it.Bytes = g.ethInput(class)
				case contains(cosmosClasses, class):
					it.Bytes = g.cosmosInput(class)
				default:
					it.Bytes = g.byteInput(class)
				}
			}()
			switch entry {
			case "CheckTx":
				d.checkTx(it, false)
			case "CheckTx-Recheck":
				d.checkTx(it, true)
			case "Simulate":
				d.simulate(it)
			default:
				d.enqueue(it, r)
			}
		default:
			class := vh.Pick(r, queryClasses)
			g := &gen{h: d.h, r: r, pending: map[common.Address]uint64{}}
			var q *hquery
			func() {
				defer func() {
					if p := recover(); p != nil {
						rec.Count("generator_panics", 1)
						rec.Note("generator panic in class %s: %v\n%s", class, p, trunc(string(debug.Stack()), 1800))
						q = &hquery{Class: class, Path: "/", Data: nil}
					}
				}()
				q = g.query(class)
			}()
			d.query(&item{Idx: idx, Entry: "Query", Class: class, EvClass: class, Query: q})
		}
	}
	for _, q := range []string{"PrepareProposal", "ProcessProposal", "FinalizeBlock"} {
		d.flush(q)
	}
	if !hangProbe {
		d.health(nil)
	}
	d.h.c.Cleanup()
}

func contains(xs []string, s string) bool {
	for _, x := range xs {
		if x == s {
			return true
		}
	}
	return false
}
