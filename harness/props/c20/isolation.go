package c20

import (
	"bytes"
	"fmt"
	"math/big"
	"strings"

	sdkmath "cosmossdk.io/math"
	abci "github.com/cometbft/cometbft/abci/types"
	codectypes "github.com/cosmos/cosmos-sdk/codec/types"
	sdk "github.com/cosmos/cosmos-sdk/types"
	txtypes "github.com/cosmos/cosmos-sdk/types/tx"
	banktypes "github.com/cosmos/cosmos-sdk/x/bank/types"
	"github.com/cosmos/gogoproto/proto"
	"github.com/ethereum/go-ethereum/common"
	ethtypes "github.com/ethereum/go-ethereum/core/types"
	"github.com/ethereum/go-ethereum/core/vm"
	"github.com/ethereum/go-ethereum/crypto"

	cpcabi "github.com/EscanBE/evermint/v12/x/cpc/abi"
	evmtypes "github.com/EscanBE/evermint/v12/x/evm/types"

	"verifharness/vh"
)

// Isolation metamorphic test. Block B = valid transactions of distinct senders + one poisonous
// transaction of a dedicated sender; block B' = the same with the poison replaced by a benign
// transaction of the same sender, same lane, same type, same gas limit and same fee. B runs on
// chain X, B' on chain Y (identical genesis and setup). Every OTHER transaction must have the
// same result (code, codespace, log, data, gas wanted, gas used, events).
//
// Fence: three receipt fields are by definition functions of the preceding transactions
// (cumulative gas used, transaction index, index of the first log); they are compared after
// subtracting nothing - they are blanked - and only when poison and benign differ in them.
// Everything else is compared byte for byte.

var poisonClasses = []string{
	"precompile-executor-panic", "precompile-malformed-input", "out-of-gas", "revert-deep", "self-destruct", "gas-exhausting-loop", "call-depth-limit",
	"create-0xef-code", "invalid-opcode", "stack-overflow", "huge-memory", "undecodable-bytes", "ante-fail-nonce", "ante-fail-fee", "ante-fail-signature",
	"eth-payload-garbled", "cosmos-handler-failure", "cosmos-second-msg-fails", "create-oversized-code", "write-in-static-context",
}

type isoSetup struct {
	h       *hworld
	poison  *vh.Acct
	others  []*vh.Acct
	pTarget common.Address   // poison sender's private contracts
	deep    common.Address   // root of a revert-deep tree
	destr   common.Address   // self-destructing contract
	recur   common.Address   // self-recursive contract
	misc    common.Address   // dispatches by first calldata byte: invalid / stack overflow / huge memory / static write
	benign  common.Address   // benign target of the poison sender (stores a word)
	shared  []common.Address // contracts the other senders call (never touched by poison / benign)
}

// buildIso creates one chain of the pair. Both chains of a pair are built by the same calls
// with the same seed, hence are identical.
func buildIso(seed uint64, caseIdx int) (*isoSetup, error) {
	r := derive(seed, "iso-world", caseIdx)
	h := newHWorld(r, vh.Config{Seed: r.U64(), NumVals: 2, MaxGas: -1}, 8)
	s := &isoSetup{h: h, poison: h.eoas[7], others: h.eoas[:7]}
	d := s.poison
	base := h.w.NextNonce(d.Addr)
	var plans []*vh.TxPlan
	add := func(code []byte, value *big.Int) common.Address {
		a := crypto.CreateAddress(d.Addr, base+uint64(len(plans)))
		plans = append(plans, h.w.PlanEth(d, nil, value, 3_000_000, vh.Deployer(code), "ok", h.fee()))
		return a
	}
	// puppets in front of the precompiles (poison sender's own)
	for _, name := range []string{"erc20", "staking", "bech32"} {
		h.puppets["CALL/"+name] = add(vh.Forwarder(vh.CALL, h.cpcs[name], true), nil)
	}
	h.looper = add(vh.NewAsm().Label("x").Jump("x").Bytes(), nil)
	// revert-deep: 5 nested frames, each writes and logs, the innermost reverts, all propagate
	var inner common.Address
	for lvl := 0; lvl < 5; lvl++ {
		a := vh.NewAsm().SStore(uint64(lvl), 7).Log(uint64(lvl), 0xdd)
		if lvl == 0 {
			a.PushU(0).PushU(0).Op(vm.REVERT)
		} else {
			a.CallMem(vh.CALL, inner, nil, 0, 0, 0, 0, 0).JumpI("ok").PushU(0).PushU(0).Op(vm.REVERT).Label("ok").Op(vm.STOP)
		}
		inner = add(a.Bytes(), nil)
	}
	s.deep = inner
	s.destr = add(vh.NewAsm().SStore(0, 1).PushAddr(d.Addr).Op(vm.SELFDESTRUCT).Bytes(), big.NewInt(1000))
	// recur: calls itself with all gas until the depth limit, then stores
	rec := vh.NewAsm().PushU(0).PushU(0).PushU(0).PushU(0).PushU(0).Op(vm.ADDRESS, vm.GAS, vm.CALL).Op(vm.POP).SStore(0, 1).Op(vm.STOP)
	s.recur = add(rec.Bytes(), nil)
	// misc: selector = first byte of calldata
	m := vh.NewAsm().PushU(0).Op(vm.CALLDATALOAD).PushU(248).Op(vm.SHR)
	m.Op(vm.DUP1).PushU(1).Op(vm.EQ).JumpI("invalid")
	m.Op(vm.DUP1).PushU(2).Op(vm.EQ).JumpI("stack")
	m.Op(vm.DUP1).PushU(3).Op(vm.EQ).JumpI("mem")
	m.Op(vm.DUP1).PushU(4).Op(vm.EQ).JumpI("static")
	m.Op(vm.DUP1).PushU(5).Op(vm.EQ).JumpI("write")
	m.Op(vm.STOP)
	m.Label("write").SStore(0, 1).Op(vm.STOP)
	m.Label("invalid").SStore(0, 1).Op(vm.INVALID)
	m.Label("stack").Label("push").Op(vm.PC).Jump("push")
	m.Label("mem").PushU(1).Push(new(big.Int).Lsh(big.NewInt(1), 40)).Op(vm.MSTORE).Op(vm.STOP)
	// static: STATICCALL self with selector 5 (which tries to SSTORE), propagate failure by INVALID
	m.Label("static").PushU(5).PushU(248).Op(vm.SHL).PushU(0).Op(vm.MSTORE).PushU(0).PushU(0).PushU(32).PushU(0).Op(vm.ADDRESS, vm.GAS, vm.STATICCALL).JumpI("sok").Op(vm.INVALID).Label("sok").Op(vm.STOP)
	s.misc = add(m.Bytes(), nil)
	s.benign = add(vh.NewAsm().PushU(1).PushU(0).Op(vm.SLOAD, vm.ADD).PushU(0).Op(vm.SSTORE).Log(1, 2).Op(vm.STOP).Bytes(), nil)
	br := h.c.NextBlock(txsOf(plans), nil)
	h.w.ResetPending()
	if br.Err != nil {
		return nil, br.Err
	}
	for i, res := range br.TxResults() {
		if res.Code != 0 {
			return nil, fmt.Errorf("iso deployment %d failed: %s", i, res.Log)
		}
	}
	// shared contracts for the other senders
	plans = nil
	d2 := s.others[0]
	base2 := h.w.NextNonce(d2.Addr)
	for i := 0; i < 4; i++ {
		p := vh.GenProgram(r, vh.ProgOpts{MaxLen: 5, Depth: 1, NoSelfDestr: true, NoBlockCtx: true})
		a := crypto.CreateAddress(d2.Addr, base2+uint64(len(plans)))
		plans = append(plans, h.w.PlanEth(d2, nil, nil, 3_000_000, vh.Deployer(p.Code), "ok", h.fee()))
		s.shared = append(s.shared, a)
	}
	wr := vh.NewAsm().PushU(1).PushU(0).Op(vm.SLOAD, vm.ADD).PushU(0).Op(vm.SSTORE).Log(0x55, 1, 2).Op(vm.STOP).Bytes()
	s.shared = append(s.shared, crypto.CreateAddress(d2.Addr, base2+uint64(len(plans))))
	plans = append(plans, h.w.PlanEth(d2, nil, nil, 1_000_000, vh.Deployer(wr), "ok", h.fee()))
	// fund the poison sender's erc20 puppet
	pe := h.puppets["CALL/erc20"]
	plans = append(plans, h.w.PlanEth(s.others[1], &pe, vh.Ether(1), 100_000, nil, "ok", h.fee()))
	br = h.c.NextBlock(txsOf(plans), nil)
	h.w.ResetPending()
	if br.Err != nil {
		return nil, br.Err
	}
	return s, nil
}

type isoTx struct {
	Desc  string
	Bytes []byte
}

// otherTx: a valid transaction of sender a (state-disjoint from everything the poison sender touches).
func (s *isoSetup) otherTx(r *vh.RNG, a *vh.Acct) isoTx {
	h := s.h
	n := h.c.Nonce(a.Addr)
	price := h.price()
	mk := func(desc string, to *common.Address, value *big.Int, gas uint64, data []byte) isoTx {
		var tx *ethtypes.Transaction
		switch r.Intn(3) {
		case 0:
			tx = vh.SignEth(a, vh.LegacyTx(n, to, value, gas, price, data))
		case 1:
			tx = vh.SignEth(a, &ethtypes.AccessListTx{ChainID: big.NewInt(vh.EIP155ID), Nonce: n, To: to, Value: value, Gas: gas, GasPrice: price, Data: data})
		default:
			tx = vh.SignEth(a, vh.DynTx(n, to, value, gas, new(big.Int).Mul(price, big.NewInt(2)), big.NewInt(int64(r.Intn(100))), data, nil))
		}
		return isoTx{Desc: fmt.Sprintf("%s from=%s type=%d gas=%d", desc, a.Addr.Hex(), tx.Type(), gas), Bytes: h.c.WrapEth(tx, a.Addr)}
	}
	switch r.Intn(8) {
	case 0:
		to := vh.Pick(r, s.others).Addr
		return mk("transfer", &to, big.NewInt(int64(r.Intn(100000))), 21000, nil)
	case 1, 2:
		to := vh.Pick(r, s.shared)
		return mk("call-shared-contract", &to, nil, uint64(vh.Pick(r, []int{40_000, 300_000, 2_000_000})), r.Bytes(vh.Pick(r, []int{0, 4, 36})))
	case 3:
		p := vh.GenProgram(r, vh.ProgOpts{MaxLen: 4, Depth: 1, NoBlockCtx: true})
		return mk("create", nil, nil, 1_500_000, vh.Deployer(p.Code))
	case 4:
		to := h.erc20
		data, _ := cpcabi.Erc20CpcInfo.ABI.Pack("transfer", vh.Pick(r, s.others).Addr, big.NewInt(int64(r.Intn(100000))))
		return mk("erc20-transfer", &to, nil, 400_000, data)
	case 5:
		to := h.erc20
		data, _ := cpcabi.Erc20CpcInfo.ABI.Pack("approve", vh.Pick(r, s.others).Addr, big.NewInt(int64(r.Intn(100000))))
		return mk("erc20-approve", &to, nil, 400_000, data)
	case 6:
		to := h.staking
		data, _ := cpcabi.StakingCpcInfo.ABI.Pack("delegate", vh.Pick(r, h.valEvm), big.NewInt(int64(1+r.Intn(100000))))
		return mk("staking-delegate", &to, nil, 2_000_000, data)
	default:
		msg := banktypes.NewMsgSend(a.Acc(), vh.Pick(r, s.others).Acc(), sdk.NewCoins(sdk.NewCoin(vh.Denom, sdkmath.NewInt(int64(1+r.Intn(100000))))))
		return isoTx{Desc: "cosmos-send from=" + a.Addr.Hex(), Bytes: h.c.CosmosTx(a, []sdk.Msg{msg}, &vh.CosmosOpts{Gas: 200000})}
	}
}

// poisonPair returns the poisonous transaction and its benign replacement (same sender, lane,
// type, gas limit, fee).
func (s *isoSetup) poisonPair(r *vh.RNG, class string, panicInputs [][]byte) (poison, benign isoTx) {
	h := s.h
	p := s.poison
	n := h.c.Nonce(p.Addr)
	price := h.price()
	eth := func(desc string, to *common.Address, gas uint64, data []byte, nonce uint64, pr *big.Int, signer *vh.Acct) isoTx {
		tx := vh.SignEth(signer, vh.LegacyTx(nonce, to, nil, gas, pr, data))
		return isoTx{Desc: desc, Bytes: h.c.WrapEth(tx, p.Addr)}
	}
	ben := func(gas uint64) isoTx {
		to := s.benign
		return eth("benign-call", &to, gas, nil, n, price, p)
	}
	switch class {
	case "precompile-executor-panic":
		in := vh.Pick(r, panicInputs)
		to := common.BytesToAddress(in[:20])
		return eth("precompile-executor-panic", &to, 3_000_000, in[20:], n, price, p), ben(3_000_000)
	case "precompile-malformed-input":
		combo := cpcCombo{Contract: vh.Pick(r, []string{"erc20", "staking", "bech32"}), Mutation: vh.Pick(r, cpcMutations[1:]), Route: vh.Pick(r, []string{"direct", "puppet-CALL"})}
		var names []string
		for name := range cpcInfo(combo.Contract).ABI.Methods {
			names = append(names, name)
		}
		sortStrings(names)
		combo.Method = vh.Pick(r, names)
		to := cpcTarget(h, combo)
		return eth("precompile-malformed:"+combo.class(), &to, 3_000_000, cpcData(h, r, combo), n, price, p), ben(3_000_000)
	case "out-of-gas":
		to := s.benign
		return eth("out-of-gas", &to, 21_500, nil, n, price, p), func() isoTx { t := p.Addr; return eth("benign-self-transfer", &t, 21_500, nil, n, price, p) }()
	case "revert-deep":
		to := s.deep
		return eth("revert-deep", &to, 1_000_000, nil, n, price, p), ben(1_000_000)
	case "self-destruct":
		to := s.destr
		return eth("self-destruct", &to, 300_000, nil, n, price, p), ben(300_000)
	case "gas-exhausting-loop":
		to := h.looper
		g := uint64(vh.Pick(r, []int{100_000, 5_000_000}))
		return eth("gas-exhausting-loop", &to, g, nil, n, price, p), ben(g)
	case "call-depth-limit":
		to := s.recur
		return eth("call-depth-limit", &to, 12_000_000_000, nil, n, price, p), ben(12_000_000_000)
	case "create-0xef-code":
		init := vh.NewAsm().PushU(0xef).PushU(0).Op(vm.MSTORE8).PushU(1).PushU(0).Op(vm.RETURN).Bytes()
		okInit := vh.Deployer([]byte{0x00})
		return eth("create-0xef-code", nil, 500_000, init, n, price, p), eth("benign-create", nil, 500_000, okInit, n, price, p)
	case "create-oversized-code":
		init := vh.NewAsm().PushU(24577).PushU(0).Op(vm.RETURN).Bytes()
		return eth("create-oversized-code", nil, 8_000_000, init, n, price, p), eth("benign-create", nil, 8_000_000, vh.Deployer([]byte{0x00}), n, price, p)
	case "invalid-opcode", "stack-overflow", "huge-memory", "write-in-static-context":
		sel := map[string]byte{"invalid-opcode": 1, "stack-overflow": 2, "huge-memory": 3, "write-in-static-context": 4}[class]
		to := s.misc
		return eth(class, &to, 400_000, []byte{sel}, n, price, p), eth("benign-misc-noop", &to, 400_000, []byte{9}, n, price, p)
	case "undecodable-bytes":
		return isoTx{Desc: "undecodable-bytes", Bytes: r.Bytes(vh.Pick(r, []int{1, 40, 300}))}, ben(100_000)
	case "ante-fail-nonce":
		to := s.benign
		return eth("ante-fail-nonce", &to, 100_000, nil, n+uint64(1+r.Intn(3)), price, p), ben(100_000)
	case "ante-fail-fee":
		to := s.benign
		return eth("ante-fail-fee", &to, 100_000, nil, n, big.NewInt(1), p), ben(100_000)
	case "ante-fail-signature":
		to := s.benign
		return eth("ante-fail-signature(signed by another key)", &to, 100_000, nil, n, price, s.others[6]), ben(100_000)
	case "eth-payload-garbled":
		to := s.benign
		tx := vh.SignEth(p, vh.LegacyTx(n, &to, nil, 100_000, price, nil))
		bin, _ := tx.MarshalBinary()
		g := &gen{h: h, r: r, pending: map[common.Address]uint64{}}
		return isoTx{Desc: "eth-payload-garbled", Bytes: g.envelope(bin[:len(bin)-1-r.Intn(10)], p, &envOpts{fee: &txtypes.Fee{GasLimit: 100_000, Amount: sdk.NewCoins(sdk.NewCoin(vh.Denom, sdkmath.NewIntFromBigInt(new(big.Int).Mul(price, big.NewInt(100_000)))))}})}, ben(100_000)
	case "cosmos-handler-failure":
		bad := banktypes.NewMsgSend(p.Acc(), s.others[0].Acc(), sdk.NewCoins(sdk.NewCoin(vh.Denom, sdkmath.NewIntFromBigInt(vh.Ether(999_999)))))
		good := banktypes.NewMsgSend(p.Acc(), p.Acc(), sdk.NewCoins(sdk.NewCoin(vh.Denom, sdkmath.NewInt(1))))
		return isoTx{Desc: "cosmos-handler-failure(send more than owned)", Bytes: h.c.CosmosTx(p, []sdk.Msg{bad}, &vh.CosmosOpts{Gas: 200000})},
			isoTx{Desc: "benign-cosmos-self-send", Bytes: h.c.CosmosTx(p, []sdk.Msg{good}, &vh.CosmosOpts{Gas: 200000})}
	case "cosmos-second-msg-fails":
		good := banktypes.NewMsgSend(p.Acc(), p.Acc(), sdk.NewCoins(sdk.NewCoin(vh.Denom, sdkmath.NewInt(1))))
		bad := banktypes.NewMsgSend(p.Acc(), s.others[0].Acc(), sdk.NewCoins(sdk.NewCoin(vh.Denom, sdkmath.NewIntFromBigInt(vh.Ether(999_999)))))
		return isoTx{Desc: "cosmos-second-msg-fails", Bytes: h.c.CosmosTx(p, []sdk.Msg{good, bad}, &vh.CosmosOpts{Gas: 300000})},
			isoTx{Desc: "benign-cosmos-two-self-sends", Bytes: h.c.CosmosTx(p, []sdk.Msg{good, good}, &vh.CosmosOpts{Gas: 300000})}
	}
	panic("unknown poison class " + class)
}

func sortStrings(s []string) {
	for i := 1; i < len(s); i++ {
		for j := i; j > 0 && s[j] < s[j-1]; j-- {
			s[j], s[j-1] = s[j-1], s[j]
		}
	}
}

// positional fields of a receipt / event that are functions of the preceding transactions
var positionalAttrs = map[string]bool{"txIdx": true, "logIdx": true, "receiptMarshalled": true, "receipt": true}

// normalise returns a copy of the result with the positional receipt fields blanked.
func normalise(res *abci.ExecTxResult) *abci.ExecTxResult {
	out := *res
	// MsgEthereumTxResponse.MarshalledReceipt -> blank CumulativeGasUsed
	if len(res.Data) > 0 {
		var td sdk.TxMsgData
		if proto.Unmarshal(res.Data, &td) == nil {
			changed := false
			for _, a := range td.MsgResponses {
				var r evmtypes.MsgEthereumTxResponse
				if a.TypeUrl == "/"+proto.MessageName(&r) && proto.Unmarshal(a.Value, &r) == nil {
					r.MarshalledReceipt = blankReceipt(r.MarshalledReceipt)
					a.Value, _ = proto.Marshal(&r)
					changed = true
				}
			}
			if changed {
				out.Data, _ = proto.Marshal(&td)
			}
		}
	}
	out.Events = make([]abci.Event, len(res.Events))
	for i, e := range res.Events {
		ne := abci.Event{Type: e.Type, Attributes: make([]abci.EventAttribute, len(e.Attributes))}
		copy(ne.Attributes, e.Attributes)
		if e.Type == evmtypes.EventTypeTxReceipt {
			for j := range ne.Attributes {
				switch ne.Attributes[j].Key {
				case evmtypes.AttributeKeyReceiptMarshalled:
					ne.Attributes[j].Value = common.Bytes2Hex(blankReceipt(common.FromHex(ne.Attributes[j].Value)))
				case evmtypes.AttributeKeyReceiptTxIndex, evmtypes.AttributeKeyReceiptStartLogIndex:
					ne.Attributes[j].Value = "*"
				}
			}
		}
		if e.Type == evmtypes.EventTypeEthereumTx {
			// index among the Ethereum transactions admitted so far in the block: positional as well
			for j := range ne.Attributes {
				if ne.Attributes[j].Key == evmtypes.AttributeKeyTxIndex {
					ne.Attributes[j].Value = "*"
				}
			}
		}
		out.Events[i] = ne
	}
	return &out
}

// feeDiffers tells whether the poison and its benign twin paid different amounts to the fee collector.
func feeDiffers(p, b *abci.ExecTxResult) bool {
	key := func(r *abci.ExecTxResult) string {
		switch {
		case vh.HasEvent(r, evmtypes.EventTypeEthereumTx): // admitted Ethereum tx: charged gas used x price (same price in both)
			return fmt.Sprintf("eth:%d", r.GasUsed)
		case vh.HasEvent(r, "tx"): // admitted Cosmos tx: charged the declared fee
			fee, _ := vh.EventAttr(r, "tx", "fee")
			return "cosmos:" + fee
		}
		return "none"
	}
	return key(p) != key(b)
}

func blankReceipt(bz []byte) []byte {
	rc := &ethtypes.Receipt{}
	if err := rc.UnmarshalBinary(bz); err != nil {
		return bz
	}
	rc.CumulativeGasUsed = 0
	out, err := rc.MarshalBinary()
	if err != nil {
		return bz
	}
	return out
}

func resultDiff(a, b *abci.ExecTxResult) string {
	switch {
	case a.Code != b.Code || a.Codespace != b.Codespace:
		return "code"
	case !bytes.Equal(a.Data, b.Data):
		return "data"
	case a.GasWanted != b.GasWanted:
		return "gas-wanted"
	case a.GasUsed != b.GasUsed:
		return "gas-used"
	case a.Log != b.Log:
		return "log"
	}
	if len(a.Events) != len(b.Events) {
		return "events"
	}
	for i := range a.Events {
		am, _ := proto.Marshal(&a.Events[i])
		bm, _ := proto.Marshal(&b.Events[i])
		if !bytes.Equal(am, bm) {
			return "events:" + a.Events[i].Type
		}
	}
	return ""
}

func resBrief(r *abci.ExecTxResult) map[string]any {
	ev := []string{}
	for _, e := range r.Events {
		s := e.Type
		for _, a := range e.Attributes {
			s += " " + a.Key + "=" + trunc(a.Value, 100)
		}
		ev = append(ev, s)
	}
	return map[string]any{"code": r.Code, "codespace": r.Codespace, "log": trunc(r.Log, 400), "gas_wanted": r.GasWanted, "gas_used": r.GasUsed, "data": hexTrunc(r.Data, 400), "events": ev}
}

// findPanicInputs probes (on a throw-away chain) which malformed precompile inputs make the
// executor panic inside a delivered transaction (BaseApp turns that into an ErrPanic result).
// Returned entries are target address (20 bytes) || call data.
func findPanicInputs(seed uint64) [][]byte {
	s, err := buildIso(seed, 1<<20)
	if err != nil {
		return nil
	}
	defer s.h.c.Cleanup()
	h := s.h
	r := derive(seed, "iso-panic-probe", 0)
	var out [][]byte
	combos := cpcCombos()
	var batch []cpcCombo
	for _, c := range combos {
		if c.Mode == "deliver" && (c.Route == "direct" || c.Route == "puppet-CALL") && c.Mutation != "valid" {
			batch = append(batch, c)
		}
	}
	for i := 0; i < len(batch); i += 7 {
		var txs [][]byte
		var datas [][]byte
		for j := 0; j < 7 && i+j < len(batch); j++ {
			c := batch[i+j]
			a := h.eoas[j]
			to := cpcTarget(h, c)
			data := cpcData(h, r, c)
			tx := vh.SignEth(a, vh.LegacyTx(h.c.Nonce(a.Addr), &to, nil, 3_000_000, h.price(), data))
			txs = append(txs, h.c.WrapEth(tx, a.Addr))
			datas = append(datas, append(append([]byte{}, to.Bytes()...), data...))
		}
		var br *vh.BlockResult
		func() {
			defer func() { _ = recover() }()
			br = h.c.NextBlock(txs, nil)
		}()
		if br == nil || br.Err != nil {
			break
		}
		for j, res := range br.TxResults() {
			if res.Code == 111222 || strings.Contains(res.Log, "panic") {
				out = append(out, datas[j])
			}
		}
		if len(out) >= 12 {
			break
		}
	}
	return out
}

// childIsolation runs cases [start, count) of batch (case index = batch*1000 + i).
func childIsolation(rec *rec, seed uint64, batch, start, count int) {
	trk := newTracker("iso", batch)
	defer trk.close()
	panicInputs := findPanicInputs(seed)
	rec.Max("precompile_panic_inputs_found", int64(len(panicInputs)))
	for i := start; i < count; i++ {
		caseIdx := batch*1000 + i
		r := derive(seed, "iso-case", caseIdx)
		class := poisonClasses[(batch*count+i)%len(poisonClasses)] // consecutive across batches: every class is reached
		if class == "precompile-executor-panic" && len(panicInputs) == 0 {
			class = "precompile-malformed-input"
		}
		x, err := buildIso(seed, caseIdx)
		if err != nil {
			rec.Note("iso setup failed: %v", err)
			continue
		}
		y, err := buildIso(seed, caseIdx)
		if err != nil {
			x.h.c.Cleanup()
			rec.Note("iso setup failed: %v", err)
			continue
		}
		isoCase(rec, trk, r, i, caseIdx, class, x, y, panicInputs)
		x.h.c.Cleanup()
		y.h.c.Cleanup()
	}
}

func isoCase(rec *rec, trk *tracker, r *vh.RNG, i, caseIdx int, class string, x, y *isoSetup, panicInputs [][]byte) {
	if !bytes.Equal(x.h.c.LastHash, y.h.c.LastHash) {
		rec.Note("iso pair %d: chains differ after setup (monitor problem)", caseIdx)
		return
	}
	// compose B on X's state (Y is identical)
	k := 3 + r.Intn(4)
	senders := append([]*vh.Acct{}, x.others...)
	vh.Shuffle(r, senders)
	var block []isoTx
	for j := 0; j < k; j++ {
		block = append(block, x.otherTx(r, senders[j]))
	}
	pos := r.Intn(k + 1)
	if r.Chance(2, 3) && pos == k { // mostly keep something after the poison
		pos = r.Intn(k)
	}
	rp := derive(0, "pp", caseIdx)
	rp2 := derive(0, "pp", caseIdx)
	poison, _ := x.poisonPair(rp, class, panicInputs)
	_, benign := y.poisonPair(rp2, class, panicInputs)
	mk := func(mid isoTx) [][]byte {
		var txs [][]byte
		for j, t := range block {
			if j == pos {
				txs = append(txs, mid.Bytes)
			}
			txs = append(txs, t.Bytes)
		}
		if pos == k {
			txs = append(txs, mid.Bytes)
		}
		return txs
	}
	bTxs, b2Txs := mk(poison), mk(benign)
	descs := func(mid isoTx) []string {
		var d []string
		for j, t := range block {
			if j == pos {
				d = append(d, "["+mid.Desc+"]")
			}
			d = append(d, t.Desc)
		}
		if pos == k {
			d = append(d, "["+mid.Desc+"]")
		}
		return d
	}
	trk.before(i, "FinalizeBlock", "isolation-"+class, encodeItems(func() []*item {
		var its []*item
		for _, t := range bTxs {
			its = append(its, &item{Bytes: t})
		}
		return its
	}()))
	var bx, by *vh.BlockResult
	var esc any
	func() {
		defer func() { esc = recover() }()
		bx = x.h.c.NextBlock(bTxs, nil)
		by = y.h.c.NextBlock(b2Txs, nil)
	}()
	wit := func(extra map[string]any) map[string]any {
		m := map[string]any{"case": caseIdx, "poison_class": class, "poison_position": pos, "block_B": descs(poison), "block_B_prime": descs(benign),
			"poison_tx_hex": hexTrunc(poison.Bytes, 6000), "benign_tx_hex": hexTrunc(benign.Bytes, 6000)}
		for k, v := range extra {
			m[k] = v
		}
		return m
	}
	rec.Eval(1)
	rec.Count("isolation_pairs", 1)
	rec.Count("isolation:"+class, 1)
	if esc != nil {
		rec.Violation("panic-escaped:FinalizeBlock:isolation-"+class, wit(map[string]any{"panic": trunc(fmt.Sprint(esc), 2000)}))
		return
	}
	if bx.Err != nil || by.Err != nil {
		rec.Violation("finalize-block-failed:isolation-"+class+":"+reasonClass(fmt.Sprint(bx.Err, by.Err)), wit(map[string]any{"error_B": fmt.Sprint(bx.Err), "error_B_prime": fmt.Sprint(by.Err)}))
		return
	}
	rx, ry := bx.TxResults(), by.TxResults()
	if len(rx) != len(bTxs) || len(ry) != len(b2Txs) {
		rec.Violation("finalize-block-result-count-mismatch", wit(map[string]any{"results_B": len(rx), "results_B_prime": len(ry)}))
		return
	}
	pIdx := pos
	pres, bres := rx[pIdx], ry[pIdx]
	pclass := codeClass(pres.Codespace, pres.Code)
	rec.Nontrivial("isolation|" + class + "|poison:" + pclass + "|benign:" + codeClass(bres.Codespace, bres.Code) + fmt.Sprintf("|after=%v", pos < k))
	rec.Distinct("poison_result", class+"|"+pclass)
	if bres.Code != 0 {
		rec.Count("isolation_benign_failed", 1)
		rec.Note("benign replacement failed in class %s: %s", class, trunc(bres.Log, 200))
	}
	if pres.Code == 0 && class != "self-destruct" {
		rec.Count("isolation_poison_succeeded", 1)
	}
	positionalOnly := 0
	for j := range rx {
		if j == pIdx {
			continue
		}
		rec.Count("isolation_other_tx_compared", 1)
		if j > pIdx {
			rec.Count("isolation_other_tx_after_poison_compared", 1)
		}
		if f := resultDiff(rx[j], ry[j]); f != "" {
			// positional receipt fields only?
			nx, ny := normalise(rx[j]), normalise(ry[j])
			if !vh.HasEvent(rx[j], evmtypes.EventTypeEthereumTx) && !vh.HasEvent(ry[j], evmtypes.EventTypeEthereumTx) && feeDiffers(pres, bres) {
				// Cosmos-lane gas is KV gas: it depends on the byte length of every value read or written,
				// including the fee collector's balance string, which legitimately differs between B and B'
				// when poison and benign were charged different fees (a failing Ethereum tx is charged more
				// gas than its benign twin; an undecodable one nothing). GasUsed of such a tx is not judged.
				if nx.GasUsed != ny.GasUsed {
					rec.Count("isolation_cosmos_gas_used_not_judged_fee_collector_balance_differs", 1)
				}
				nx.GasUsed, ny.GasUsed = 0, 0
			}
			if f2 := resultDiff(nx, ny); f2 == "" {
				positionalOnly++
				continue
			} else {
				f = f2
			}
			rec.Violation("other-tx-result-changed-by-poison:"+class+":"+strings.SplitN(f, ":", 2)[0], wit(map[string]any{"other_tx_index": j, "field": f,
				"result_in_B": resBrief(rx[j]), "result_in_B_prime": resBrief(ry[j]), "poison_result": resBrief(pres), "benign_result": resBrief(bres)}))
		}
	}
	if positionalOnly > 0 {
		rec.Count("isolation_other_tx_differing_only_in_positional_receipt_fields", positionalOnly)
	}
	// both chains must be able to run the next block
	hx, hy := x.h, y.h
	for _, h := range []*hworld{hx, hy} {
		to := h.eoas[0].Addr
		bz, _ := h.c.EthTx(h.healthy, vh.LegacyTx(h.c.Nonce(h.healthy.Addr), &to, big.NewInt(1), 21000, h.price(), nil))
		var br *vh.BlockResult
		func() {
			defer func() {
				if p := recover(); p != nil {
					rec.Violation("panic-escaped:FinalizeBlock:block-after-isolation-"+class, wit(map[string]any{"panic": trunc(fmt.Sprint(p), 2000)}))
				}
			}()
			br = h.c.NextBlock([][]byte{bz}, nil)
		}()
		if br != nil && (br.Err != nil || br.TxResults()[0].Code != 0) {
			rec.Violation("chain-unhealthy-after-hostile-block", wit(map[string]any{"error": fmt.Sprint(br.Err)}))
		}
	}
	trk.after(i, "FinalizeBlock", "isolation-"+class, pclass)
	if caseIdx%37 == 0 {
		rec.Sample(map[string]any{"isolation_case": caseIdx, "class": class, "block_B": descs(poison), "poison_result": pclass, "others_compared": len(rx) - 1})
	}
}

var _ = codectypes.NewAnyWithValue
