package c20

import (
	"fmt"
	"math/big"

	"github.com/ethereum/go-ethereum/common"
	"github.com/ethereum/go-ethereum/core/vm"
	"github.com/ethereum/go-ethereum/crypto"

	cpctypes "github.com/EscanBE/evermint/v12/x/cpc/types"
	evmtypes "github.com/EscanBE/evermint/v12/x/evm/types"

	"verifharness/vh"
)

var callKinds = []vh.CallKind{vh.CALL, vh.DELEGATECALL, vh.STATICCALL, vh.CALLCODE}

// hworld is the chain a hostile-input child works on.
type hworld struct {
	c        *vh.Chain
	w        *vh.World
	r        *vh.RNG
	eoas     []*vh.Acct
	healthy  *vh.Acct // only ever sends the health-check transfers
	erc20    common.Address
	staking  common.Address
	bech32   common.Address
	cpcs     map[string]common.Address // "erc20" | "staking" | "bech32"
	puppets  map[string]common.Address // "<KIND>/<cpc>"
	targets  []common.Address          // generated contracts
	looper   common.Address
	valEvm   []common.Address
	lastEth  []*evmtypes.MsgEthereumTx // admitted eth txs of the last block that had some
	lastRec  struct {
		Height int64
		Hash   []byte
	}
	msgURLs []string
}

func newHWorld(r *vh.RNG, cfg vh.Config, nEOA int) *hworld {
	h := &hworld{r: r, cpcs: map[string]common.Address{}, puppets: map[string]common.Address{}}
	cfg.Erc20Native, cfg.StakingCPC = true, true
	if cfg.NumVals == 0 {
		cfg.NumVals = 2
	}
	h.w = vh.NewWorld(r, vh.WorldOpts{Chain: cfg, NumEOA: nEOA + 1, Prog: vh.ProgOpts{MaxLen: 6, Depth: 2}})
	h.c = h.w.C
	h.healthy = h.w.EOAs[nEOA]
	h.eoas = h.w.EOAs[:nEOA]
	h.w.EOAs = h.eoas // the healthy account never signs generated traffic
	for _, m := range h.c.App.CPCKeeper.GetAllCustomPrecompiledContractsMeta(h.c.QueryCtx()) {
		a := common.BytesToAddress(m.Address)
		switch m.CustomPrecompiledType {
		case cpctypes.CpcTypeErc20:
			h.erc20, h.cpcs["erc20"] = a, a
		case cpctypes.CpcTypeStaking:
			h.staking, h.cpcs["staking"] = a, a
		case cpctypes.CpcTypeBech32:
			h.bech32, h.cpcs["bech32"] = a, a
		}
	}
	if len(h.cpcs) != 3 {
		panic("c20: custom precompiles missing")
	}
	for _, v := range h.c.Vals {
		h.valEvm = append(h.valEvm, common.BytesToAddress(v.Oper))
	}
	h.msgURLs = h.c.Enc.InterfaceRegistry.ListImplementations("cosmos.base.v1beta1.Msg")
	return h
}

func (h *hworld) price() *big.Int {
	p := new(big.Int).Mul(h.c.BaseFee(), big.NewInt(3))
	if p.Sign() == 0 {
		p = big.NewInt(1)
	}
	return p
}

func (h *hworld) fee() *vh.FeeShape { return &vh.FeeShape{Type: 0, Price: h.price(), Kind: "x3"} }

// deployBasics deploys generated contracts, the puppets in front of every custom precompile
// (all four call kinds) and a gas-burning loop contract, and funds the puppets.
func (h *hworld) deployBasics(nGenerated int) error {
	if nGenerated > 0 {
		h.w.DeployGenerated(nGenerated, nil)
		for _, c := range h.w.Contracts {
			h.targets = append(h.targets, c.Addr)
		}
	}
	d := h.eoas[0]
	base := h.w.NextNonce(d.Addr)
	var plans []*vh.TxPlan
	add := func(code []byte) common.Address {
		a := crypto.CreateAddress(d.Addr, base+uint64(len(plans)))
		plans = append(plans, h.w.PlanEth(d, nil, nil, 2_000_000, vh.Deployer(code), "ok", h.fee()))
		return a
	}
	for _, name := range []string{"erc20", "staking", "bech32"} {
		for _, k := range callKinds {
			h.puppets[k.String()+"/"+name] = add(vh.Forwarder(k, h.cpcs[name], true))
		}
	}
	h.looper = add(vh.NewAsm().Label("x").Jump("x").Bytes())
	br := h.c.NextBlock(txsOf(plans), nil)
	h.w.ResetPending()
	if br.Err != nil {
		return br.Err
	}
	for i, res := range br.TxResults() {
		if res.Code != 0 {
			return fmt.Errorf("deployment %d failed: %s", i, res.Log)
		}
	}
	plans = nil
	for _, k := range []string{"CALL/erc20", "CALL/staking", "CALLCODE/erc20", "DELEGATECALL/erc20"} {
		to := h.puppets[k]
		plans = append(plans, h.w.PlanEth(h.eoas[1], &to, vh.Ether(2), 100_000, nil, "ok", h.fee()))
	}
	br = h.c.NextBlock(txsOf(plans), nil)
	h.w.ResetPending()
	if br.Err != nil {
		return br.Err
	}
	return nil
}

func txsOf(plans []*vh.TxPlan) [][]byte {
	out := make([][]byte, len(plans))
	for i, p := range plans {
		out[i] = p.Bytes
	}
	return out
}

var _ = vm.STOP
