// Package live holds the schedule-quantified monitors (C20 event bus / filter system /
// websocket / indexer interleavings, C08 queries concurrent with block production).
// They run the REAL rpc and server code of the repository against a fake CometBFT
// websocket endpoint, under the race detector and under seeded hook-point schedules.
package live

import (
	"encoding/json"
	"net"
	"net/http"
	"sync"
	"sync/atomic"

	tmjson "github.com/cometbft/cometbft/libs/json"
	coretypes "github.com/cometbft/cometbft/rpc/core/types"
	"github.com/gorilla/websocket"
)

// FakeComet is a minimal CometBFT JSON-RPC websocket endpoint: it answers subscribe /
// unsubscribe / unsubscribe_all and pushes the events the harness emits to every
// connection subscribed to the event's query (CometBFT wire format: a JSON-RPC response
// carrying the id of the subscribe request and a tmjson-encoded ResultEvent).
type FakeComet struct {
	ln    net.Listener
	srv   *http.Server
	mu    sync.Mutex
	conns map[*fcConn]struct{}
	Subs  atomic.Int64 // subscribe calls seen
	Unsub atomic.Int64
	Sent  atomic.Int64 // event frames written
	Resub atomic.Int64 // subscribe calls for a query the connection was still subscribed to
}

type fcConn struct {
	ws   *websocket.Conn
	wmu  sync.Mutex
	mu   sync.Mutex
	subs map[string]json.RawMessage // query -> id of the subscribe request
}

func NewFakeComet() (*FakeComet, error) {
	ln, err := net.Listen("tcp", "127.0.0.1:0")
	if err != nil {
		return nil, err
	}
	f := &FakeComet{ln: ln, conns: map[*fcConn]struct{}{}}
	mux := http.NewServeMux()
	mux.HandleFunc("/websocket", f.handle)
	f.srv = &http.Server{Handler: mux}
	go func() { _ = f.srv.Serve(ln) }()
	return f, nil
}

func (f *FakeComet) Addr() string { return "tcp://" + f.ln.Addr().String() }

func (f *FakeComet) Close() {
	_ = f.srv.Close()
	f.mu.Lock()
	for c := range f.conns {
		_ = c.ws.Close()
	}
	f.mu.Unlock()
}

type rpcReq struct {
	JSONRPC string          `json:"jsonrpc"`
	ID      json.RawMessage `json:"id"`
	Method  string          `json:"method"`
	Params  json.RawMessage `json:"params"`
}

func (f *FakeComet) handle(w http.ResponseWriter, r *http.Request) {
	up := websocket.Upgrader{CheckOrigin: func(*http.Request) bool { return true }}
	ws, err := up.Upgrade(w, r, nil)
	if err != nil {
		return
	}
	c := &fcConn{ws: ws, subs: map[string]json.RawMessage{}}
	f.mu.Lock()
	f.conns[c] = struct{}{}
	f.mu.Unlock()
	defer func() {
		f.mu.Lock()
		delete(f.conns, c)
		f.mu.Unlock()
		_ = ws.Close()
	}()
	for {
		_, msg, err := ws.ReadMessage()
		if err != nil {
			return
		}
		var req rpcReq
		if err := json.Unmarshal(msg, &req); err != nil {
			continue
		}
		var p struct {
			Query string `json:"query"`
		}
		_ = json.Unmarshal(req.Params, &p)
		switch req.Method {
		case "subscribe":
			f.Subs.Add(1)
			c.mu.Lock()
			if _, dup := c.subs[p.Query]; dup {
				f.Resub.Add(1) // subscribe for a query this connection is still subscribed to
			}
			c.subs[p.Query] = req.ID
			c.mu.Unlock()
		case "unsubscribe":
			f.Unsub.Add(1)
			c.mu.Lock()
			delete(c.subs, p.Query)
			c.mu.Unlock()
		case "unsubscribe_all":
			c.mu.Lock()
			c.subs = map[string]json.RawMessage{}
			c.mu.Unlock()
		}
		id := req.ID
		if len(id) == 0 {
			id = json.RawMessage("-1")
		}
		resp := []byte(`{"jsonrpc":"2.0","id":` + string(id) + `,"result":{}}`)
		c.wmu.Lock()
		err = ws.WriteMessage(websocket.TextMessage, resp)
		c.wmu.Unlock()
		if err != nil {
			return
		}
	}
}

// Subscribed tells whether any connection currently holds a subscription for query.
func (f *FakeComet) Subscribed(query string) bool {
	f.mu.Lock()
	defer f.mu.Unlock()
	for c := range f.conns {
		c.mu.Lock()
		_, ok := c.subs[query]
		c.mu.Unlock()
		if ok {
			return true
		}
	}
	return false
}

// Emit pushes ev to every connection currently subscribed to ev.Query. It returns the number of frames written.
func (f *FakeComet) Emit(ev coretypes.ResultEvent) int {
	res, err := tmjson.Marshal(ev)
	if err != nil {
		return 0
	}
	f.mu.Lock()
	conns := make([]*fcConn, 0, len(f.conns))
	for c := range f.conns {
		conns = append(conns, c)
	}
	f.mu.Unlock()
	n := 0
	for _, c := range conns {
		c.mu.Lock()
		id, ok := c.subs[ev.Query]
		c.mu.Unlock()
		if !ok {
			continue
		}
		frame := []byte(`{"jsonrpc":"2.0","id":` + string(id) + `,"result":` + string(res) + `}`)
		c.wmu.Lock()
		err := c.ws.WriteMessage(websocket.TextMessage, frame)
		c.wmu.Unlock()
		if err == nil {
			n++
			f.Sent.Add(1)
		}
	}
	return n
}
