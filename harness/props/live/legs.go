package live

import (
	"context"
	"encoding/json"
	"fmt"
	"math/big"
	"net"
	"os"
	"regexp"
	"runtime"
	"sort"
	"strconv"
	"strings"
	"sync"
	"sync/atomic"
	"time"

	"cosmossdk.io/log"
	abci "github.com/cometbft/cometbft/abci/types"
	cmtquery "github.com/cometbft/cometbft/libs/pubsub/query"
	coretypes "github.com/cometbft/cometbft/rpc/core/types"
	cmtjrpcclient "github.com/cometbft/cometbft/rpc/jsonrpc/client"
	cmttypes "github.com/cometbft/cometbft/types"
	"github.com/cosmos/cosmos-sdk/client"
	"github.com/cosmos/gogoproto/proto"
	"github.com/ethereum/go-ethereum/common"
	ethtypes "github.com/ethereum/go-ethereum/core/types"
	ethfilters "github.com/ethereum/go-ethereum/eth/filters"
	ethrpc "github.com/ethereum/go-ethereum/rpc"
	"github.com/gorilla/websocket"

	chainapp "github.com/EscanBE/evermint/v12/app"
	evrpc "github.com/EscanBE/evermint/v12/rpc"
	"github.com/EscanBE/evermint/v12/rpc/ethereum/pubsub"
	rpcfilters "github.com/EscanBE/evermint/v12/rpc/namespaces/ethereum/eth/filters"
	rpctypes "github.com/EscanBE/evermint/v12/rpc/types"
	evserver "github.com/EscanBE/evermint/v12/server"
	srvconfig "github.com/EscanBE/evermint/v12/server/config"
	evmtypes "github.com/EscanBE/evermint/v12/x/evm/types"

	"verifharness/vh"
)

// Report is what a leg's child process hands back.
type Report struct {
	Leg        string           `json:"leg"`
	Trials     int              `json:"trials"`
	Signatures []uint64         `json:"signatures"`
	Counters   map[string]int64 `json:"counters"`
	HookHits   map[string]int   `json:"hook_hits"`
	Violations []Viol           `json:"violations"`
	Inconcl    []string         `json:"inconclusive"`
}

type Viol struct {
	Sig    string `json:"sig"`
	Case   string `json:"case"`
	Detail any    `json:"detail"`
}

type legCtx struct {
	rep   *Report
	mu    sync.Mutex
	seed  uint64
	aggro int
	// progress ticks with every completed client operation of the running trial (the watchdog's notion of "not stuck")
	progress atomic.Int64
	// goroutines that existed before the running trial began (what earlier trials left behind is not this trial's doing)
	baseline      goroutineDump
	quiesceRounds int
}

func (l *legCtx) count(k string, n int64) {
	l.progress.Add(1)
	l.mu.Lock()
	l.rep.Counters[k] += n
	l.mu.Unlock()
}

func (l *legCtx) viol(sig, cs string, d any) {
	l.mu.Lock()
	if len(l.rep.Violations) < 20 {
		l.rep.Violations = append(l.rep.Violations, Viol{Sig: sig, Case: cs, Detail: d})
	}
	l.mu.Unlock()
}

// ChildMain runs one leg in this (child) process. LIVE_LEG, LIVE_TRIALS, LIVE_SEED, LIVE_AGGRO, LIVE_REPORT.
func ChildMain() int {
	leg := os.Getenv("LIVE_LEG")
	trials, _ := strconv.Atoi(os.Getenv("LIVE_TRIALS"))
	seed, _ := strconv.ParseUint(os.Getenv("LIVE_SEED"), 10, 64)
	aggro, _ := strconv.Atoi(os.Getenv("LIVE_AGGRO"))
	l := &legCtx{rep: &Report{Leg: leg, Counters: map[string]int64{}, HookHits: map[string]int{}}, seed: seed, aggro: aggro}
	sigs := map[uint64]struct{}{}
	write := func() {
		for s := range sigs {
			l.rep.Signatures = append(l.rep.Signatures, s)
		}
		b, _ := json.Marshal(l.rep)
		_ = os.WriteFile(os.Getenv("LIVE_REPORT"), b, 0o644)
	}
	var fx *fixtures
	if leg == "filters" || leg == "websocket" {
		fx = harvest(seed)
	}
	for t := 0; t < trials; t++ {
		// a leg that has already found three deadlocks has made its point (each costs a minute of watchdog time)
		l.mu.Lock()
		dl := 0
		for _, v := range l.rep.Violations {
			if strings.HasPrefix(v.Sig, "deadlock:") {
				dl++
			}
		}
		l.mu.Unlock()
		if dl >= 3 {
			l.count("trials_skipped_after_three_deadlocks", int64(trials-t))
			break
		}
		l.baseline = dumpGoroutines()
		sc := NewSched(seed*1000003+uint64(t), aggro)
		sc.Install()
		// progress marker for the parent (which trial was running when a crash happened)
		_ = os.WriteFile(os.Getenv("LIVE_REPORT")+".cur", []byte(fmt.Sprintf("%s trial %d seed %d", leg, t, seed)), 0o644)
		r := vh.Derive(seed, "live/"+leg, uint64(t))
		switch leg {
		case "pubsub":
			l.pubsubTrial(r, t)
		case "filters":
			l.filtersTrial(r, t, fx)
		case "websocket":
			l.websocketTrial(r, t, fx)
		case "queries":
			l.queriesTrial(r, t)
		default:
			fmt.Println("unknown leg", leg)
			return 3
		}
		Uninstall()
		sigs[sc.Signature()] = struct{}{}
		for k, v := range sc.HitsSnapshot() {
			l.rep.HookHits[k] += v
		}
		l.rep.Trials++
	}
	if f := os.Getenv("LIVE_FINAL_DUMP"); f != "" {
		buf := make([]byte, 64<<20)
		_ = os.WriteFile(f, buf[:runtime.Stack(buf, true)], 0o644)
	}
	write()
	return 0
}

// goroutineDump is one full stack dump split into goroutines: id -> (state without the waiting time, frames).
type goroutineDump map[string][2]string

var waitAnnot = regexp.MustCompile(`, \d+ minutes`)

func dumpGoroutines() goroutineDump {
	buf := make([]byte, 16<<20)
	n := runtime.Stack(buf, true)
	out := goroutineDump{}
	for _, g := range strings.Split(string(buf[:n]), "\n\n") {
		parts := strings.SplitN(g, "\n", 2)
		hdr := strings.SplitN(parts[0], " [", 2)
		if len(parts) < 2 || len(hdr) < 2 {
			continue
		}
		out[hdr[0]] = [2]string{waitAnnot.ReplaceAllString(strings.TrimSuffix(hdr[1], "]:"), ""), parts[1]}
	}
	return out
}

var parkedStates = []string{"sync.Mutex.Lock", "sync.RWMutex.RLock", "sync.RWMutex.Lock", "chan send", "chan receive", "select", "semacquire", "sync.Cond.Wait", "sync.WaitGroup.Wait"}

// waitOrStuck waits for wg. The verdict "deadlock" is decided on logical progress, not on the clock: after a generous
// wall-clock patience (60 s) it looks at two consecutive windows of 10 s; the workers are stuck when the leg's progress
// counter (every completed client operation ticks it) did not move in either window and a set of goroutines of this
// repository's packages, born during this trial, is parked in the same blocking state with the same frames at the three
// sampling points (the stable blocked set, returned). A leg that still makes progress is waited for (up to 10 minutes,
// then the caller records an inconclusive watchdog): a loaded machine makes a trial slow, never stuck.
func (l *legCtx) waitOrStuck(wg *sync.WaitGroup, pkgs ...string) (stuck bool, frames string) {
	done := make(chan struct{})
	go func() { wg.Wait(); close(done) }()
	wait := func(d time.Duration) bool {
		select {
		case <-done:
			return true
		case <-time.After(d):
			return false
		}
	}
	if wait(60 * time.Second) {
		return false, ""
	}
	for round := 0; round < 27; round++ {
		p0, s0 := l.progress.Load(), dumpGoroutines()
		if wait(10 * time.Second) {
			return false, ""
		}
		p1, s1 := l.progress.Load(), dumpGoroutines()
		if p1 != p0 {
			continue
		}
		if wait(10 * time.Second) {
			return false, ""
		}
		p2, s2 := l.progress.Load(), dumpGoroutines()
		if p2 != p1 {
			continue
		}
		var ids []string
		for id, g := range s0 {
			if _, old := l.baseline[id]; old {
				continue
			}
			hit := false
			for _, p := range pkgs {
				hit = hit || strings.Contains(g[1], p)
			}
			parked := false
			for _, st := range parkedStates {
				parked = parked || g[0] == st
			}
			if hit && parked && s1[id] == g && s2[id] == g {
				ids = append(ids, id)
			}
		}
		if len(ids) == 0 {
			continue
		}
		sort.Strings(ids)
		var keep []string
		for _, id := range ids {
			keep = append(keep, id+" ["+s0[id][0]+"]:\n"+s0[id][1])
		}
		return true, strings.Join(keep, "\n\n")
	}
	return true, ""
}

// ---------------------------------------------------------------------------------------
// Leg: event bus (rpc/ethereum/pubsub)
// ---------------------------------------------------------------------------------------

func (l *legCtx) pubsubTrial(r *vh.RNG, t int) {
	bus := pubsub.NewEventBus()
	nTopics := r.Range(1, 3)
	var wg sync.WaitGroup
	stop := make(chan struct{})
	var pubsDone sync.WaitGroup
	for ti := 0; ti < nTopics; ti++ {
		name := fmt.Sprintf("topic-%d", ti)
		nMsg := r.Range(50, 400)
		closeAtEnd := r.Bool()
		dup := r.Chance(1, 3)
		src := make(chan coretypes.ResultEvent)
		if err := bus.AddTopic(name, src); err != nil {
			l.viol("pubsub-add-topic-failed", "pubsub", err.Error())
		}
		if dup { // concurrent duplicate registration (check-then-act window)
			wg.Add(1)
			go func() {
				defer wg.Done()
				src2 := make(chan coretypes.ResultEvent)
				if err := bus.AddTopic(name, src2); err == nil {
					l.count("pubsub_duplicate_topic_registered", 1)
					close(src2)
				} else {
					l.count("pubsub_duplicate_topic_refused", 1)
				}
			}()
		}
		wg.Add(1)
		pubsDone.Add(1)
		go func() {
			defer wg.Done()
			defer pubsDone.Done()
			for i := 0; i < nMsg; i++ {
				select {
				case src <- coretypes.ResultEvent{Query: name, Events: map[string][]string{"seq": {strconv.Itoa(i)}}}:
					l.count("pubsub_published", 1)
				case <-stop:
					return
				}
				if i%7 == 0 {
					runtime.Gosched()
				}
			}
			if closeAtEnd {
				close(src)
				l.count("pubsub_topics_closed", 1)
			}
		}()
		nSubs := r.Range(2, 6)
		for si := 0; si < nSubs; si++ {
			rounds := r.Range(1, 5)
			take := r.Range(1, 30)
			wg.Add(1)
			go func() {
				defer wg.Done()
				for k := 0; k < rounds; k++ {
					ch, unsub, err := bus.Subscribe(name)
					if err != nil {
						l.count("pubsub_subscribe_refused", 1)
						runtime.Gosched()
						continue
					}
					l.count("pubsub_subscribed", 1)
					last := -1
					for n := 0; n < take; n++ {
						select {
						case ev, ok := <-ch:
							if !ok {
								n = take
								break
							}
							seq, _ := strconv.Atoi(ev.Events["seq"][0])
							if ev.Query != name {
								l.viol("pubsub-wrong-topic-delivered", "pubsub", map[string]any{"want": name, "got": ev.Query})
							}
							if seq <= last {
								l.viol("pubsub-duplicate-or-reordered-delivery", "pubsub", map[string]any{"topic": name, "last": last, "got": seq})
							}
							last = seq
							l.count("pubsub_delivered", 1)
						case <-stop:
							n = take
						case <-time.After(200 * time.Millisecond):
							n = take
						}
					}
					unsub()
					l.count("pubsub_unsubscribed", 1)
				}
			}()
		}
		if r.Chance(1, 4) {
			wg.Add(1)
			go func() {
				defer wg.Done()
				for i := 0; i < 20; i++ {
					_ = bus.Topics()
					runtime.Gosched()
				}
				bus.RemoveTopic(name)
				l.count("pubsub_topics_removed", 1)
			}()
		}
	}
	go func() { pubsDone.Wait(); time.Sleep(50 * time.Millisecond); close(stop) }()
	if stuck, frames := l.waitOrStuck(&wg, "rpc/ethereum/pubsub"); stuck {
		if frames != "" {
			l.viol("deadlock:pubsub", "pubsub", map[string]any{"trial": t, "stable_blocked_set": frames})
		} else {
			l.rep.Inconcl = append(l.rep.Inconcl, "pubsub watchdog fired without a stable blocked set in the event bus")
		}
		return
	}
	// bounded progress: a fresh subscription on a fresh topic receives a published event
	src := make(chan coretypes.ResultEvent)
	_ = bus.AddTopic("probe", src)
	ch, unsub, err := bus.Subscribe("probe")
	if err != nil {
		l.viol("no-progress:pubsub-subscribe-after-load", "pubsub", err.Error())
		return
	}
	got := make(chan struct{})
	go func() { <-ch; close(got) }()
	ok := false
	for i := 0; i < 20000 && !ok; i++ {
		select {
		case src <- coretypes.ResultEvent{Query: "probe"}:
		case <-got:
			ok = true
		}
		select {
		case <-got:
			ok = true
		default:
			runtime.Gosched()
		}
	}
	if !ok {
		l.viol("no-progress:pubsub-fresh-subscription-got-nothing", "pubsub", map[string]any{"trial": t, "published": 20000})
	} else {
		l.count("pubsub_probe_ok", 1)
	}
	unsub()
	close(src)
}

// ---------------------------------------------------------------------------------------
// fixtures: real headers / transactions / results harvested from a real chain
// ---------------------------------------------------------------------------------------

type fixtures struct {
	enc     vh.EncCfg
	headers []cmttypes.Header
	txs     []abci.TxResult
}

func harvest(seed uint64) *fixtures {
	r := vh.Derive(seed, "live/harvest", 0)
	w := vh.NewWorld(r, vh.WorldOpts{Chain: vh.Config{Seed: seed, KeepBlocks: true}, NumEOA: 3})
	defer w.C.Cleanup()
	fx := &fixtures{enc: w.C.Enc}
	logger := vh.NewAsm().Log(7, 1, 2).Log(9, 3).Log(5).Bytes() // logs with 2, 1 and 0 topics
	var plans []*vh.TxPlan
	plans = append(plans, w.PlanEth(w.EOAs[0], nil, nil, 500000, vh.Deployer(append(logger, 0x00)), "ok", nil))
	w.RunPlans(plans, nil, nil)
	addr := common.Address{}
	for i := 0; i < 6; i++ {
		var ps []*vh.TxPlan
		if i == 0 {
			addr = crypto_CreateAddress(w.EOAs[0].Addr, 0)
		}
		for j := 0; j < 3; j++ {
			ps = append(ps, w.PlanEth(w.EOAs[j%3], &addr, nil, 200000, nil, "ok", nil))
		}
		w.C.KeepBlocks = true
		txs := make([][]byte, len(ps))
		for k, p := range ps {
			txs[k] = p.Bytes
		}
		br := w.C.NextBlock(txs, &vh.BlockOpt{NoSentinel: true})
		w.ResetPending()
		hdr := cmttypes.Header{ChainID: vh.ChainID, Height: br.Height, Time: br.Time, ProposerAddress: br.Req.ProposerAddress, AppHash: br.Res.AppHash,
			ValidatorsHash: br.Req.NextValidatorsHash, NextValidatorsHash: br.Req.NextValidatorsHash}
		fx.headers = append(fx.headers, hdr)
		for k := range txs {
			fx.txs = append(fx.txs, abci.TxResult{Height: br.Height, Index: uint32(k), Tx: txs[k], Result: *br.Res.TxResults[k]})
		}
	}
	return fx
}

func crypto_CreateAddress(a common.Address, n uint64) common.Address {
	return common.BytesToAddress(ethCreateAddress(a, n))
}

func (fx *fixtures) event(query string, i int) coretypes.ResultEvent {
	if strings.Contains(query, "NewBlockHeader") {
		h := fx.headers[i%len(fx.headers)]
		h.Height += int64(i / len(fx.headers) * 100)
		return coretypes.ResultEvent{Query: query, Data: cmttypes.EventDataNewBlockHeader{Header: h}, Events: map[string][]string{"tm.event": {"NewBlockHeader"}}}
	}
	tx := fx.txs[i%len(fx.txs)]
	return coretypes.ResultEvent{Query: query, Data: cmttypes.EventDataTx{TxResult: tx}, Events: map[string][]string{"tm.event": {"Tx"}, "message.module": {"evm"}}}
}

// the query strings exactly as the filter system / websocket server subscribe with them (normalised by CometBFT's query compiler)
var knownQueries = []string{
	cmttypes.QueryForEvent(cmttypes.EventNewBlockHeader).String(),
	cmttypes.QueryForEvent(cmttypes.EventTx).String(),
	cmtquery.MustCompile("tm.event='Tx' AND message.module='evm'").String(),
}

// emitter pushes events for every known query until stopped; returns the number of frames written.
func emitter(fc *FakeComet, fx *fixtures, stop <-chan struct{}, wg *sync.WaitGroup, sent *atomic.Int64) {
	defer wg.Done()
	i := 0
	for {
		select {
		case <-stop:
			return
		default:
		}
		for _, q := range knownQueries {
			sent.Add(int64(fc.Emit(fx.event(q, i))))
		}
		i++
		if i%5 == 0 {
			time.Sleep(200 * time.Microsecond)
		} else {
			runtime.Gosched()
		}
	}
}

// randCriteria draws log-filter criteria of every shape the API accepts: no / matching / foreign address, topic lists
// shorter, as long as and LONGER than the topic lists of the logs that will arrive (the fixture logs carry 1 and 2
// topics), with wildcard (empty) positions before a constrained one.
func randCriteria(r *vh.RNG, fx *fixtures) ethfilters.FilterCriteria {
	var c ethfilters.FilterCriteria
	if r.Chance(1, 3) {
		c.Addresses = []common.Address{common.BytesToAddress(r.Bytes(20))}
	}
	t := func(b byte) common.Hash { return common.BytesToHash([]byte{b}) }
	c.Topics = vh.Pick(r, [][][]common.Hash{
		nil, {}, {{}}, {{t(1)}}, {{t(7)}, {}}, {{}, {t(2)}}, {{}, {}, {t(9)}}, {{}, {}, {}, {t(3)}}, {{t(7), t(9)}, {t(2), t(3)}}, {{}, {t(1)}, {}, {}},
	})
	return c
}

var wsLogCriteria = []string{
	`{"topics":[]}`, `{}`, `{"topics":[null,"0x0000000000000000000000000000000000000000000000000000000000000002"]}`,
	`{"topics":[null,null,"0x0000000000000000000000000000000000000000000000000000000000000009"]}`,
	`{"topics":[null,null,null,["0x0000000000000000000000000000000000000000000000000000000000000003"]]}`,
	`{"address":"0x00000000000000000000000000000000000000aa","topics":[["0x0000000000000000000000000000000000000000000000000000000000000001"]]}`,
}

// stubBackend implements filters.Backend with static answers.
type stubBackend struct{ fx *fixtures }

func (b stubBackend) GetBlockByNumber(rpctypes.BlockNumber, bool) (map[string]interface{}, error) {
	return map[string]interface{}{}, nil
}
func (b stubBackend) HeaderByNumber(n rpctypes.BlockNumber) (*ethtypes.Header, error) {
	return &ethtypes.Header{Number: big.NewInt(int64(len(b.fx.headers)))}, nil
}
func (b stubBackend) HeaderByHash(common.Hash) (*ethtypes.Header, error) {
	return &ethtypes.Header{Number: big.NewInt(1)}, nil
}
func (b stubBackend) CometBFTBlockByHash(common.Hash) (*coretypes.ResultBlock, error) {
	return nil, fmt.Errorf("not found")
}
func (b stubBackend) CometBFTBlockResultByNumber(*int64) (*coretypes.ResultBlockResults, error) {
	return nil, fmt.Errorf("not found")
}
func (b stubBackend) GetLogs(common.Hash) ([][]*ethtypes.Log, error) { return nil, nil }
func (b stubBackend) GetLogsByHeight(*int64) ([][]*ethtypes.Log, error) {
	return nil, nil
}
func (b stubBackend) BlockBloom(*coretypes.ResultBlockResults) ethtypes.Bloom {
	return ethtypes.Bloom{}
}
func (b stubBackend) BloomStatus() (uint64, uint64) { return 4096, 0 }
func (b stubBackend) RPCFilterCap() int32           { return 100000 }
func (b stubBackend) RPCLogsCap() int32             { return 10000 }
func (b stubBackend) RPCBlockRangeCap() int32       { return 10000 }

func (fx *fixtures) clientCtx() client.Context {
	return client.Context{}.WithChainID(vh.ChainID).WithCodec(fx.enc.Codec).WithInterfaceRegistry(fx.enc.InterfaceRegistry).WithTxConfig(fx.enc.TxConfig).WithLegacyAmino(fx.enc.Amino)
}

func connect(fc *FakeComet) *cmtjrpcclient.WSClient {
	return evserver.ConnectCometBftWS(fc.Addr(), "/websocket", log.NewNopLogger())
}

// ---------------------------------------------------------------------------------------
// Leg: filter system + PublicFilterAPI
// ---------------------------------------------------------------------------------------

func (l *legCtx) filtersTrial(r *vh.RNG, t int, fx *fixtures) {
	fc, err := NewFakeComet()
	if err != nil {
		l.rep.Inconcl = append(l.rep.Inconcl, "cannot listen: "+err.Error())
		return
	}
	defer fc.Close()
	ws := connect(fc)
	defer func() { _ = ws.Stop() }()
	api := rpcfilters.NewPublicAPI(log.NewNopLogger(), fx.clientCtx(), ws, stubBackend{fx})
	stop := make(chan struct{})
	var ewg, wg sync.WaitGroup
	var sent atomic.Int64
	ewg.Add(1)
	go emitter(fc, fx, stop, &ewg, &sent)
	var leftMu sync.Mutex
	var leftover []ethrpc.ID // filters the workers leave installed (uninstalled at the end of the trial, see below)
	nWorkers := r.Range(3, 8)
	for wi := 0; wi < nWorkers; wi++ {
		wr := vh.Derive(r.U64(), "w", uint64(wi))
		ops := wr.Range(10, 40)
		wg.Add(1)
		go func() {
			defer wg.Done()
			for k := 0; k < ops; k++ {
				var id ethrpc.ID
				switch wr.Intn(3) {
				case 0:
					id = api.NewBlockFilter()
					l.count("filters_new_block_filter", 1)
				case 1:
					id = api.NewPendingTransactionFilter()
					l.count("filters_new_pending_filter", 1)
				default:
					var e error
					id, e = api.NewFilter(randCriteria(wr, fx))
					if e != nil {
						l.count("filters_new_log_filter_refused", 1)
						continue
					}
					l.count("filters_new_log_filter", 1)
				}
				for p := wr.Intn(4); p > 0; p-- {
					if res, err := api.GetFilterChanges(id); err == nil {
						switch v := res.(type) {
						case []common.Hash:
							l.count("filters_hashes_polled", int64(len(v)))
						case []*ethtypes.Log:
							l.count("filters_logs_polled", int64(len(v)))
						}
					}
					if wr.Chance(1, 3) {
						time.Sleep(time.Duration(wr.Intn(500)) * time.Microsecond)
					} else {
						runtime.Gosched()
					}
				}
				if !wr.Chance(9, 10) {
					leftMu.Lock()
					leftover = append(leftover, id)
					leftMu.Unlock()
				} else {
					api.UninstallFilter(id)
					l.count("filters_uninstalled", 1)
					// a client retry / duplicate request in a batch: the same id uninstalled again, at once or concurrently
					switch wr.Intn(6) {
					case 0:
						api.UninstallFilter(id)
						l.count("filters_uninstalled_twice", 1)
					case 1:
						wg.Add(1)
						go func(id ethrpc.ID) { defer wg.Done(); api.UninstallFilter(id) }(id)
						api.UninstallFilter(id)
						l.count("filters_uninstalled_twice_concurrently", 1)
					}
				}
			}
		}()
	}
	if stuck, frames := l.waitOrStuck(&wg, "rpc/namespaces/ethereum/eth/filters", "rpc/ethereum/pubsub"); stuck {
		if frames != "" {
			l.viol("deadlock:filter-system", "filters", map[string]any{"trial": t, "stable_blocked_set": trunc(frames, 6000)})
		} else {
			l.rep.Inconcl = append(l.rep.Inconcl, "filters watchdog fired without a stable blocked set in the filter system")
		}
		close(stop)
		return
	}
	// bounded progress: after the storm a fresh block filter must see a published header
	// (the property is about the node being wedged for good: a probe filter that was torn down by an
	// uninstall still in flight from the storm - the filter system removes a topic together with every
	// subscriber that piggy-backs on it - is retried with a fresh filter; only persistent silence counts)
	var id ethrpc.ID
	ok := false
	// the probe (and the final uninstall below) make API calls themselves: under the same watchdog as the storm, so that a
	// lock the storm left held shows as a stable blocked set instead of hanging the leg
	var pwg sync.WaitGroup
	pwg.Add(1)
	go func() {
		defer pwg.Done()
		for attempt := 0; attempt < 5 && !ok; attempt++ {
			if attempt > 0 {
				l.count("filters_probe_retries", 1)
				time.Sleep(50 * time.Millisecond)
			}
			id = api.NewBlockFilter()
			for i := 0; i < 300 && !ok; i++ {
				time.Sleep(5 * time.Millisecond)
				res, err := api.GetFilterChanges(id)
				l.progress.Add(1)
				if err != nil {
					break // filter is gone: try a fresh one
				}
				if hs, _ := res.([]common.Hash); len(hs) > 0 {
					ok = true
				}
			}
		}
	}()
	if stuck, frames := l.waitOrStuck(&pwg, "rpc/namespaces/ethereum/eth/filters", "rpc/ethereum/pubsub"); stuck {
		if frames != "" {
			l.viol("deadlock:filter-system", "filters", map[string]any{"trial": t, "phase": "probe after the storm", "stable_blocked_set": trunc(frames, 6000)})
		} else {
			l.rep.Inconcl = append(l.rep.Inconcl, "filters probe watchdog fired without a stable blocked set in the filter system")
		}
		close(stop)
		return
	}
	close(stop)
	ewg.Wait()
	l.count("filters_event_frames_sent", sent.Load())
	if !ok {
		hq := knownQueries[0]
		sig := "no-progress:fresh-block-filter-got-nothing-after-load"
		if !fc.Subscribed(hq) {
			// diagnosis: the node holds no CometBFT subscription for new headers any more although filters are installed
			sig = "event-delivery-wedged:cometbft-subscription-lost-while-filters-installed"
		}
		l.viol(sig, "filters", map[string]any{"trial": t, "frames_sent": sent.Load(), "subscribes": fc.Subs.Load(), "unsubscribes": fc.Unsub.Load(),
			"subscribes_while_still_subscribed": fc.Resub.Load(), "cometbft_subscribed_to_new_headers": fc.Subscribed(hq)})
	} else {
		l.count("filters_probe_ok", 1)
	}
	var uwg sync.WaitGroup
	uwg.Add(1)
	go func() {
		defer uwg.Done()
		api.UninstallFilter(id)
		// ... and every filter the storm left installed
		leftMu.Lock()
		ids := append([]ethrpc.ID{}, leftover...)
		leftMu.Unlock()
		for _, x := range ids {
			api.UninstallFilter(x)
		}
		l.count("filters_uninstalled_at_the_end_of_the_trial", int64(len(ids)))
	}()
	if stuck, frames := l.waitOrStuck(&uwg, "rpc/namespaces/ethereum/eth/filters", "rpc/ethereum/pubsub"); stuck {
		if frames != "" {
			l.viol("deadlock:filter-system", "filters", map[string]any{"trial": t, "phase": "uninstall of the probe filter", "stable_blocked_set": trunc(frames, 6000)})
		}
		return
	}
	l.filterGoroutinesMustEnd(t)
}

// filterLoops are the per-filter goroutines of PublicFilterAPI (polling filters): each serves one installed filter and
// ends when the filter is uninstalled.
var filterLoops = []string{"PublicFilterAPI).NewPendingTransactionFilter.func1", "PublicFilterAPI).NewBlockFilter.func1", "PublicFilterAPI).NewFilter.func1"}

// filterGoroutinesMustEnd: no event flows any more and every filter of this trial has been uninstalled. The goroutines that
// served them (born in this trial) have to end; the verdict is about the ones that never come to rest: the count of such
// goroutines is followed until it stops falling (logical quiescence, bounded by 30 s), and a goroutine that is then still
// there and is found runnable, running or queueing for a mutex in each of five samples spread over half a second is spinning
// on behalf of a filter that no longer exists.
func (l *legCtx) filterGoroutinesMustEnd(t int) {
	alive := func() (goroutineDump, map[string]string) {
		d := dumpGoroutines()
		out := map[string]string{}
		for id, g := range d {
			if _, old := l.baseline[id]; old {
				continue
			}
			for _, fl := range filterLoops {
				if strings.Contains(g[1], fl) {
					out[id] = fl
				}
			}
		}
		return d, out
	}
	_, cur := alive()
	for quiet := 0; quiet < 5; {
		time.Sleep(100 * time.Millisecond)
		_, next := alive()
		if len(next) < len(cur) {
			quiet = 0
		} else {
			quiet++
		}
		cur = next
		if len(cur) == 0 {
			break
		}
		if l.quiesceRounds++; l.quiesceRounds > 300 {
			break
		}
	}
	l.quiesceRounds = 0
	l.count("filters_trials_checked_for_goroutines_outliving_their_filters", 1)
	if len(cur) == 0 {
		l.count("filters_trials_where_every_filter_goroutine_ended", 1)
		return
	}
	busy := map[string]int{}
	for id := range cur {
		busy[id] = 0
	}
	var last goroutineDump
	for s := 0; s < 5; s++ {
		time.Sleep(100 * time.Millisecond)
		d, _ := alive()
		last = d
		for id := range busy {
			if g, ok := d[id]; ok && (g[0] == "runnable" || g[0] == "running" || g[0] == "sync.Mutex.Lock") {
				busy[id]++
			}
		}
	}
	var spinning []string
	kinds := map[string]int{}
	for id, n := range busy {
		if n == 5 {
			kinds[cur[id]]++
			if len(spinning) < 3 {
				spinning = append(spinning, id+" ["+last[id][0]+"]:\n"+last[id][1])
			}
		}
	}
	if len(kinds) > 0 {
		l.viol("uninstalled-filter-goroutine-spins", "filters", map[string]any{"trial": t, "spinning_goroutines_by_loop": kinds, "filter_goroutines_left": len(cur), "examples": trunc(strings.Join(spinning, "\n\n"), 4000)})
		return
	}
	l.count("filters_trials_with_parked_goroutines_left_after_every_uninstall", 1)
}

// ---------------------------------------------------------------------------------------
// Leg: websocket server (eth_subscribe / eth_unsubscribe / hostile frames / disconnects)
// ---------------------------------------------------------------------------------------

func freeAddr() string {
	ln, err := net.Listen("tcp", "127.0.0.1:0")
	if err != nil {
		return "127.0.0.1:0"
	}
	defer ln.Close()
	return ln.Addr().String()
}

var hostileFrames = []string{
	`not json`, `[]`, `[1,2,3]`, `{}`, `{"method":5,"id":1}`, `{"method":"eth_subscribe","id":{}}`, `{"method":"eth_subscribe","id":1}`,
	`{"method":"eth_subscribe","id":1,"params":[]}`, `{"method":"eth_subscribe","id":1,"params":[5]}`, `{"method":"eth_subscribe","id":"x","params":["newHeads"]}`,
	`{"method":"eth_subscribe","id":1,"params":["logs",5]}`, `{"method":"eth_subscribe","id":1,"params":["logs",{"address":5}]}`,
	`{"method":"eth_subscribe","id":1,"params":["logs",{"address":["0x1",7],"topics":[[5],null,"x"]}]}`, `{"method":"eth_subscribe","id":1,"params":["logs",{"topics":"x"}]}`,
	`{"method":"eth_subscribe","id":1,"params":["logs",{"topics":[["0x01"],[["nested"]]]}]}`, `{"method":"eth_subscribe","id":1,"params":["logs",{"address":"0xzz"}]}`,
	`{"method":"eth_unsubscribe","id":1,"params":[5]}`, `{"method":"eth_unsubscribe","id":1,"params":[]}`, `{"method":"eth_unsubscribe","id":1e400,"params":["0x1"]}`,
	`{"method":"eth_subscribe","id":1,"params":["syncing"]}`, `{"method":"eth_subscribe","id":1,"params":["nope"]}`, `{"jsonrpc":"2.0","method":"eth_blockNumber","id":1,"params":[]}`,
	`[{"method":"eth_subscribe","id":1,"params":["newHeads"]}]`, `{"method":"eth_subscribe","id":-0,"params":["newPendingTransactions", {"x":1}]}`,
}

func (l *legCtx) websocketTrial(r *vh.RNG, t int, fx *fixtures) {
	fc, err := NewFakeComet()
	if err != nil {
		l.rep.Inconcl = append(l.rep.Inconcl, "cannot listen: "+err.Error())
		return
	}
	defer fc.Close()
	ws := connect(fc)
	defer func() { _ = ws.Stop() }()
	cfg := srvconfig.DefaultConfig()
	cfg.JSONRPC.WsAddress = freeAddr()
	cfg.JSONRPC.Address = "127.0.0.1:1"
	srv := evrpc.NewWebsocketsServer(fx.clientCtx(), log.NewNopLogger(), ws, cfg)
	srv.Start()
	url := "ws://" + cfg.JSONRPC.WsAddress + "/"
	// wait for the listener
	var probe *websocket.Conn
	for i := 0; i < 200; i++ {
		c, _, err := websocket.DefaultDialer.Dial(url, nil)
		if err == nil {
			probe = c
			break
		}
		time.Sleep(5 * time.Millisecond)
	}
	if probe == nil {
		l.rep.Inconcl = append(l.rep.Inconcl, "websocket server did not come up")
		return
	}
	stop := make(chan struct{})
	var ewg, wg sync.WaitGroup
	var sent atomic.Int64
	ewg.Add(1)
	go emitter(fc, fx, stop, &ewg, &sent)
	nClients := r.Range(3, 8)
	for ci := 0; ci < nClients; ci++ {
		cr := vh.Derive(r.U64(), "c", uint64(ci))
		wg.Add(1)
		go func() {
			defer wg.Done()
			for conn := 0; conn < cr.Range(1, 3); conn++ {
				c, _, err := websocket.DefaultDialer.Dial(url, nil)
				if err != nil {
					l.count("ws_dial_failed", 1)
					continue
				}
				var subs []string
				var rmu sync.Mutex
				rdone := make(chan struct{})
				go func() { // reader: collects subscription ids and counts notifications
					defer close(rdone)
					for {
						_ = c.SetReadDeadline(time.Now().Add(3 * time.Second))
						_, msg, err := c.ReadMessage()
						if err != nil {
							return
						}
						var m map[string]any
						if json.Unmarshal(msg, &m) != nil {
							continue
						}
						if m["method"] == "eth_subscription" {
							l.count("ws_notifications_received", 1)
						} else if s, ok := m["result"].(string); ok && strings.HasPrefix(s, "0x") {
							rmu.Lock()
							subs = append(subs, s)
							rmu.Unlock()
						}
					}
				}()
				ops := cr.Range(5, 25)
				for k := 0; k < ops; k++ {
					var frame string
					switch cr.Intn(8) {
					case 0, 1:
						frame = `{"jsonrpc":"2.0","method":"eth_subscribe","id":` + strconv.Itoa(k) + `,"params":["newHeads"]}`
						l.count("ws_subscribe_newHeads", 1)
					case 2:
						frame = `{"jsonrpc":"2.0","method":"eth_subscribe","id":` + strconv.Itoa(k) + `,"params":["logs",` + vh.Pick(cr, wsLogCriteria) + `]}`
						l.count("ws_subscribe_logs", 1)
					case 3:
						frame = `{"jsonrpc":"2.0","method":"eth_subscribe","id":` + strconv.Itoa(k) + `,"params":["newPendingTransactions"]}`
						l.count("ws_subscribe_pending", 1)
					case 4, 5:
						rmu.Lock()
						if len(subs) > 0 {
							frame = `{"jsonrpc":"2.0","method":"eth_unsubscribe","id":` + strconv.Itoa(k) + `,"params":["` + subs[0] + `"]}`
							subs = subs[1:]
							l.count("ws_unsubscribe", 1)
						}
						rmu.Unlock()
					default:
						frame = vh.Pick(cr, hostileFrames)
						l.count("ws_hostile_frames", 1)
					}
					if frame == "" {
						continue
					}
					if err := c.WriteMessage(websocket.TextMessage, []byte(frame)); err != nil {
						break
					}
					if strings.Contains(frame, "eth_unsubscribe") && cr.Chance(1, 4) { // the same unsubscribe sent again
						_ = c.WriteMessage(websocket.TextMessage, []byte(frame))
						l.count("ws_unsubscribe_duplicates", 1)
					}
					if cr.Chance(1, 2) {
						time.Sleep(time.Duration(cr.Intn(800)) * time.Microsecond)
					}
				}
				if cr.Bool() {
					time.Sleep(time.Duration(cr.Intn(3)) * time.Millisecond)
				}
				_ = c.Close() // abrupt disconnect with live subscriptions
				l.count("ws_connections_closed", 1)
				<-rdone
			}
		}()
	}
	if stuck, frames := l.waitOrStuck(&wg, "evermint/v12/rpc"); stuck {
		if frames != "" {
			l.viol("deadlock:websocket-server", "websocket", map[string]any{"trial": t, "stable_blocked_set": trunc(frames, 6000)})
		} else {
			l.rep.Inconcl = append(l.rep.Inconcl, "websocket watchdog fired without a stable blocked set in the rpc package")
		}
		close(stop)
		return
	}
	// bounded progress: the probe connection subscribes now and must be notified of a published header
	// (retried on a fresh connection: see the filters leg - only persistent silence counts. One read
	// deadline per attempt: a gorilla connection is unusable after a read timeout.)
	ok := false
	for attempt := 0; attempt < 5 && !ok; attempt++ {
		pc := probe
		if attempt > 0 {
			l.count("ws_probe_retries", 1)
			time.Sleep(50 * time.Millisecond)
			c, _, err := websocket.DefaultDialer.Dial(url, nil)
			if err != nil {
				continue
			}
			pc = c
		}
		_ = pc.WriteMessage(websocket.TextMessage, []byte(`{"jsonrpc":"2.0","method":"eth_subscribe","id":1,"params":["newHeads"]}`))
		_ = pc.SetReadDeadline(time.Now().Add(4 * time.Second))
		for !ok {
			_, msg, err := pc.ReadMessage()
			if err != nil {
				break
			}
			if strings.Contains(string(msg), "eth_subscription") {
				ok = true
			}
		}
		if pc != probe {
			_ = pc.Close()
		}
	}
	close(stop)
	ewg.Wait()
	l.count("ws_event_frames_sent", sent.Load())
	if !ok {
		sig := "no-progress:fresh-websocket-subscription-got-nothing-after-load"
		if !fc.Subscribed(knownQueries[0]) {
			sig = "event-delivery-wedged:cometbft-subscription-lost-while-filters-installed"
		}
		l.viol(sig, "websocket", map[string]any{"trial": t, "frames_sent": sent.Load(), "subscribes": fc.Subs.Load(), "unsubscribes": fc.Unsub.Load(),
			"cometbft_subscribed_to_new_headers": fc.Subscribed(knownQueries[0])})
	} else {
		l.count("ws_probe_ok", 1)
	}
	_ = probe.Close()
}

// ---------------------------------------------------------------------------------------
// Leg: gRPC-style queries concurrent with block production (C08 d, C20)
// ---------------------------------------------------------------------------------------

func (l *legCtx) queriesTrial(r *vh.RNG, t int) {
	// the same generated history is executed twice from identical generators: first quietly (reference trace),
	// then with query goroutines hammering the application while the blocks are produced
	base := r.U64()
	ref, _ := l.queriesRun(vh.Derive(base, "queries-world", 0), t, false, nil)
	if ref == nil {
		return
	}
	_, d1 := l.queriesRun(vh.Derive(base, "queries-world", 0), t, true, ref)
	if d1 != nil {
		// schedule-dependent: re-examined once with an independent second noisy run (a trial is re-run once before it decides)
		_, d2 := l.queriesRun(vh.Derive(base, "queries-world", 0), t, true, ref)
		if d2 != nil {
			d2["first_run"] = d1
			l.viol("block-results-differ-from-the-quiet-twin", "queries", d2)
		} else {
			l.count("queries_divergences_not_reproduced_on_rerun", 1)
		}
	}
}

// queriesRun produces one history; noisy: with concurrent query goroutines. It returns the per-block trace
// (app hash + marshalled tx results); with a reference trace every block is compared with it.
func (l *legCtx) queriesRun(r *vh.RNG, t int, noisy bool, ref [][]byte) (trace [][]byte, differs map[string]any) {
	w := vh.NewWorld(r, vh.WorldOpts{Chain: vh.Config{Seed: r.U64(), NumVals: 2, Erc20Native: true, StakingCPC: true}, NumEOA: 5, Prog: vh.ProgOpts{MaxLen: 7, Depth: 2}})
	defer w.C.Cleanup()
	w.DeployGenerated(6, nil)
	app := w.C.App
	type q struct {
		path string
		data []byte
	}
	var qs []q
	erc20 := common.Address{}
	for _, m := range app.CPCKeeper.GetAllCustomPrecompiledContractsMeta(w.C.QueryCtx()) {
		if m.CustomPrecompiledType == 1 { // ERC-20
			erc20 = common.BytesToAddress(m.Address)
		}
	}
	for i, c := range w.Contracts {
		to := c.Addr
		from := w.EOAs[i%len(w.EOAs)]
		args, _ := json.Marshal(map[string]any{"from": from.Addr.Hex(), "to": to.Hex(), "gas": "0x200000", "data": "0x"})
		b, _ := proto.Marshal(&evmtypes.EthCallRequest{Args: args, GasCap: 25_000_000})
		qs = append(qs, q{"/ethermint.evm.v1.Query/EthCall", b}, q{"/ethermint.evm.v1.Query/EstimateGas", b})
		// trace of a call to the same contract (struct logger and call tracer)
		tx := vh.SignEth(from, vh.LegacyTx(w.C.Nonce(from.Addr), &to, nil, 300000, new(big.Int).Mul(w.C.BaseFee(), big.NewInt(3)), nil))
		msg := &evmtypes.MsgEthereumTx{}
		if err := msg.FromEthereumTx(tx, from.Addr); err == nil {
			for _, tracer := range []string{"", "callTracer"} {
				tb, _ := proto.Marshal(&evmtypes.QueryTraceTxRequest{Msg: msg, BlockNumber: 2, TraceConfig: &evmtypes.TraceConfig{Tracer: tracer}})
				qs = append(qs, q{"/ethermint.evm.v1.Query/TraceTx", tb})
			}
		}
	}
	if erc20 != (common.Address{}) { // state-changing precompile call in query mode: transfer(to, 1)
		data := append([]byte{0xa9, 0x05, 0x9c, 0xbb}, append(common.LeftPadBytes(w.EOAs[1].Addr.Bytes(), 32), common.LeftPadBytes([]byte{1}, 32)...)...)
		args, _ := json.Marshal(map[string]any{"from": w.EOAs[0].Addr.Hex(), "to": erc20.Hex(), "gas": "0x200000", "data": "0x" + common.Bytes2Hex(data)})
		b, _ := proto.Marshal(&evmtypes.EthCallRequest{Args: args, GasCap: 25_000_000})
		qs = append(qs, q{"/ethermint.evm.v1.Query/EthCall", b}, q{"/ethermint.evm.v1.Query/EstimateGas", b})
	}
	for _, a := range w.EOAs {
		b, _ := proto.Marshal(&evmtypes.QueryBalanceRequest{Address: a.Addr.Hex()})
		qs = append(qs, q{"/ethermint.evm.v1.Query/Balance", b})
		b2, _ := proto.Marshal(&evmtypes.QueryCosmosAccountRequest{Address: a.Addr.Hex()})
		qs = append(qs, q{"/ethermint.evm.v1.Query/CosmosAccount", b2})
	}
	b0, _ := proto.Marshal(&evmtypes.QueryParamsRequest{})
	qs = append(qs, q{"/ethermint.evm.v1.Query/Params", b0}, q{"/ethermint.evm.v1.Query/BaseFee", nil}, q{"/ethermint.feemarket.v1.Query/Params", nil},
		q{"/ethermint.feemarket.v1.Query/BaseFee", nil}, q{"/evermint.cpc.v1.Query/CustomPrecompiledContracts", nil}, q{"/evermint.cpc.v1.Query/Params", nil})
	var stop atomic.Bool
	var committed atomic.Int64 // last committed height, published by the block producer
	committed.Store(w.C.Height)
	var wg sync.WaitGroup
	if noisy {
		for g := 0; g < 6; g++ {
			wg.Add(1)
			go func(g int) {
				defer wg.Done()
				i := g
				for !stop.Load() {
					x := qs[i%len(qs)]
					i++
					h := int64(0)
					if last := committed.Load(); i%3 == 0 && last > 3 {
						h = last - 1 - int64(i%2)
					}
					func() {
						defer func() {
							if p := recover(); p != nil {
								l.viol("panic-escaped:query-during-block-production", "queries", map[string]any{"path": x.path, "panic": fmt.Sprint(p)})
							}
						}()
						res, err := app.Query(context.Background(), &abci.RequestQuery{Path: x.path, Data: x.data, Height: h})
						if err == nil && res.Code == 0 {
							l.count("queries_ok", 1)
							l.count("queries_ok:"+x.path, 1)
						} else {
							l.count("queries_error", 1)
						}
					}()
				}
			}(g)
		}
	}
	nBlocks := r.Range(15, 30)
	for b := 0; b < nBlocks; b++ {
		var plans []*vh.TxPlan
		for i := r.Range(1, 5); i > 0; i-- {
			s := vh.Pick(r, w.EOAs)
			to := vh.Pick(r, w.Contracts).Addr
			plans = append(plans, w.PlanEth(s, &to, nil, uint64(vh.Pick(r, []int{30000, 200000, 1_000_000})), nil, "ok", nil))
		}
		txs := make([][]byte, len(plans))
		for i, p := range plans {
			txs[i] = p.Bytes
		}
		br := w.C.NextBlock(txs, nil)
		w.ResetPending()
		committed.Store(br.Height)
		if br.Err != nil {
			l.viol("finalize-block-error:during-queries", "queries", br.Err.Error())
			break
		}
		line := append([]byte{}, br.Res.AppHash...)
		for _, tr := range br.Res.TxResults {
			bz, _ := proto.Marshal(tr)
			line = append(line, bz...)
		}
		trace = append(trace, line)
		if noisy {
			l.count("queries_blocks_produced", 1)
			if ref != nil {
				if b >= len(ref) || string(ref[b]) != string(line) {
					differs = map[string]any{"trial": t, "block_index": b, "height": br.Height,
						"app_hash_noisy": common.Bytes2Hex(br.Res.AppHash), "app_hash_quiet": func() string {
							if b < len(ref) && len(ref[b]) >= 32 {
								return common.Bytes2Hex(ref[b][:32])
							}
							return ""
						}()}
					break
				}
				l.count("queries_blocks_equal_to_quiet_twin", 1)
			}
		}
	}
	stop.Store(true)
	wg.Wait()
	return trace, differs
}

func trunc(s string, n int) string {
	if len(s) > n {
		return s[:n] + "…"
	}
	return s
}

var _ = chainapp.DefaultNodeHome
