package live

import (
	"encoding/json"
	"fmt"
	"os"
	"os/exec"
	"path/filepath"
	"strings"
	"time"

	"verifharness/vh"
)

// LegSpec describes how a leg is run by the parent.
type LegSpec struct {
	Leg    string
	Bin    string // "race" | "plain"
	Trials int
	Aggro  int
	Procs  int // number of child processes (different seeds)
}

// RunLegs runs the given legs in child processes of the named command (e.g. "c20") and folds
// their reports, crashes and race-detector output into run.
func RunLegs(run *vh.Run, cmdName string, specs []LegSpec) {
	binDir := os.Getenv("VERIF_BIN_DIR")
	scratch := os.Getenv("VERIF_SCRATCH")
	if scratch == "" {
		scratch = filepath.Join(vh.Root(), ".build", "scratch", "live")
	}
	_ = os.MkdirAll(scratch, 0o755)
	type job struct {
		spec LegSpec
		idx  int
	}
	var jobs []job
	for _, s := range specs {
		for i := 0; i < s.Procs; i++ {
			if !run.WantCase(fmt.Sprintf("%s/%s/%d", s.Leg, s.Bin, i)) { // replay: only the named child
				continue
			}
			jobs = append(jobs, job{s, i})
		}
	}
	type result struct {
		j       job
		rep     *Report
		crash   string
		out     string
		races   string
		missing bool
	}
	results := make([]result, len(jobs))
	sem := make(chan struct{}, 6)
	done := make(chan int, len(jobs))
	for ji, j := range jobs {
		go func(ji int, j job) {
			sem <- struct{}{}
			defer func() { <-sem; done <- ji }()
			res := result{j: j}
			bin := filepath.Join(binDir, j.spec.Bin, cmdName)
			if _, err := os.Stat(bin); err != nil {
				res.missing = true
				results[ji] = res
				return
			}
			tag := fmt.Sprintf("%s-%s-%d", j.spec.Leg, j.spec.Bin, j.idx)
			rep := filepath.Join(scratch, "live-"+tag+".json")
			outPath := filepath.Join(scratch, "live-"+tag+".out")
			racePrefix := filepath.Join(scratch, "race-"+tag)
			cmd := exec.Command(bin)
			cmd.Env = append(os.Environ(), "LIVE_LEG="+j.spec.Leg, fmt.Sprintf("LIVE_TRIALS=%d", j.spec.Trials),
				fmt.Sprintf("LIVE_SEED=%d", run.Seed*7919+uint64(j.idx)+uint64(len(j.spec.Leg))*104729), fmt.Sprintf("LIVE_AGGRO=%d", j.spec.Aggro),
				"LIVE_REPORT="+rep, "GORACE=halt_on_error=0 log_path="+racePrefix, "GOTRACEBACK=all")
			out, _ := os.Create(outPath)
			cmd.Stdout, cmd.Stderr = out, out
			err := cmd.Start()
			if err == nil {
				waitCh := make(chan error, 1)
				go func() { waitCh <- cmd.Wait() }()
				select {
				case err = <-waitCh:
				// generous wall-clock bound per child (its firing is an inconclusive run, never a verdict): a trial takes about
				// two seconds on an idle machine and ten times that on one loaded with other checks
				case <-time.After(25*time.Minute + time.Duration(j.spec.Trials)*20*time.Second):
					_ = cmd.Process.Signal(os.Interrupt)
					time.Sleep(time.Second)
					_ = cmd.Process.Kill()
					err = fmt.Errorf("watchdog")
					<-waitCh
				}
			}
			out.Close()
			ob, _ := os.ReadFile(outPath)
			res.out = string(ob)
			if b, e := os.ReadFile(rep); e == nil {
				var r Report
				if json.Unmarshal(b, &r) == nil {
					res.rep = &r
				}
			}
			if err != nil {
				// exit code 66 is the race detector's "reports were printed" status of a run that otherwise completed
				if ee, ok := err.(*exec.ExitError); !(ok && ee.ExitCode() == 66 && res.rep != nil) {
					res.crash = err.Error()
				}
			}
			if files, _ := filepath.Glob(racePrefix + "*"); len(files) > 0 {
				var sb strings.Builder
				for _, f := range files {
					b, _ := os.ReadFile(f)
					sb.Write(b)
				}
				res.races = sb.String()
			}
			if cur, e := os.ReadFile(rep + ".cur"); e == nil && res.crash != "" {
				res.crash += " (while: " + string(cur) + ")"
			}
			results[ji] = res
		}(ji, j)
	}
	for range jobs {
		<-done
	}
	sigs := map[string]map[uint64]struct{}{}
	for _, res := range results {
		leg := res.j.spec.Leg
		label := fmt.Sprintf("%s/%s/%d", leg, res.j.spec.Bin, res.j.idx)
		if res.missing {
			run.Inconclusive("binary missing for " + label)
			continue
		}
		run.Count("live_child_processes", 1)
		if res.crash != "" {
			if strings.Contains(res.crash, "watchdog") {
				run.Inconclusive("watchdog fired for " + label)
			} else {
				run.Violation("process-crash:"+leg+":"+crashClass(res.out), label, map[string]any{"leg": leg, "build": res.j.spec.Bin, "exit": res.crash, "output_tail": tailStr(res.out, 5000)})
			}
		}
		if res.rep != nil {
			run.Eval(res.rep.Trials)
			run.Count("trials_"+leg+"_"+res.j.spec.Bin, res.rep.Trials)
			for k, v := range res.rep.Counters {
				run.Count(k, int(v))
			}
			for k, v := range res.rep.HookHits {
				run.Count("hook_"+k, v)
				run.Distinct("hook_points_reached", k)
			}
			if sigs[leg] == nil {
				sigs[leg] = map[uint64]struct{}{}
			}
			for _, s := range res.rep.Signatures {
				sigs[leg][s] = struct{}{}
				run.Nontrivial(fmt.Sprintf("%s|%x", leg, s))
			}
			for _, v := range res.rep.Violations {
				run.Violation(v.Sig, label, v.Detail)
			}
			for _, ic := range res.rep.Inconcl {
				run.Inconclusive(label + ": " + ic)
			}
		}
		if res.races != "" {
			seen := map[string]bool{}
			for _, rr := range vh.ParseRaceLog(res.races) {
				run.Count("race_reports_total", 1)
				switch rr.Class {
				case "evermint":
					if !seen[rr.Key] {
						seen[rr.Key] = true
						run.Count("race_reports_with_evermint_access_site", 1)
						run.Violation("data-race:"+rr.Key, label, map[string]any{"leg": leg, "report": tailStr(rr.Text, 7000)})
					}
				case "harness":
					run.Inconclusive("race report inside the harness itself (" + rr.Key + ") in " + label)
				default:
					run.Count("race_reports_dependency_only", 1)
					run.Distinct("race_dependency_sites", rr.Key)
				}
			}
		}
	}
	for leg, m := range sigs {
		run.Count("distinct_interleaving_signatures_"+leg, len(m))
	}
}

func crashClass(out string) string {
	switch {
	case strings.Contains(out, "send on closed channel"):
		return "send-on-closed-channel"
	case strings.Contains(out, "close of closed channel"):
		return "close-of-closed-channel"
	case strings.Contains(out, "concurrent map"):
		return "concurrent-map-access"
	case strings.Contains(out, "all goroutines are asleep"):
		return "all-goroutines-asleep"
	case strings.Contains(out, "nil pointer dereference"):
		return "nil-pointer-dereference"
	case strings.Contains(out, "index out of range"):
		return "index-out-of-range"
	case strings.Contains(out, "interface conversion"):
		return "interface-conversion"
	case strings.Contains(out, "panic:"):
		return "panic"
	case strings.Contains(out, "fatal error:"):
		return "fatal-error"
	}
	return "abnormal-exit"
}

func tailStr(s string, n int) string {
	if len(s) > n {
		return "…" + s[len(s)-n:]
	}
	return s
}
