//go:build verif

package live

import (
	"hash/fnv"
	"runtime"
	"sync"
	"sync/atomic"
	"time"

	"github.com/EscanBE/evermint/v12/verifhook"
)

// Sched is a seeded schedule perturbation attached to the repository's verifhook points:
// it records the order in which goroutines pass the points (the interleaving signature
// reported as evidence) and yields or sleeps there to widen windows the Go scheduler would
// otherwise open once in a million runs. All points sit between critical sections.
type Sched struct {
	seed  uint64
	n     atomic.Uint64
	mu    sync.Mutex
	trace []string
	Hits  map[string]int
	Aggro int // 0..100: probability (percent) of perturbing at a point
}

func NewSched(seed uint64, aggro int) *Sched {
	return &Sched{seed: seed, Hits: map[string]int{}, Aggro: aggro}
}

func (s *Sched) Install() { verifhook.Set(s.at) }
func Uninstall()          { verifhook.Set(nil) }

// HitsSnapshot returns a copy of the per-point counters (goroutines of a finished trial may still pass points).
func (s *Sched) HitsSnapshot() map[string]int {
	s.mu.Lock()
	defer s.mu.Unlock()
	out := make(map[string]int, len(s.Hits))
	for k, v := range s.Hits {
		out[k] = v
	}
	return out
}

func (s *Sched) at(point string) {
	k := s.n.Add(1)
	s.mu.Lock()
	s.Hits[point]++
	if len(s.trace) < 400 {
		s.trace = append(s.trace, point)
	}
	s.mu.Unlock()
	h := fnv.New64a()
	var b [16]byte
	for i := 0; i < 8; i++ {
		b[i] = byte(s.seed >> (8 * i))
		b[8+i] = byte(k >> (8 * i))
	}
	h.Write(b[:])
	h.Write([]byte(point))
	v := h.Sum64()
	if int(v%100) >= s.Aggro {
		return
	}
	switch (v >> 8) % 4 {
	case 0:
		runtime.Gosched()
	case 1:
		for i := 0; i < 20; i++ {
			runtime.Gosched()
		}
	case 2:
		time.Sleep(time.Duration(50+(v>>16)%400) * time.Microsecond)
	default:
		time.Sleep(time.Duration(1+(v>>16)%3) * time.Millisecond)
	}
}

// Signature is a hash of the order in which the first hook points were passed.
func (s *Sched) Signature() uint64 {
	s.mu.Lock()
	defer s.mu.Unlock()
	h := fnv.New64a()
	for _, p := range s.trace {
		h.Write([]byte(p))
		h.Write([]byte{0})
	}
	return h.Sum64()
}

func (s *Sched) Total() uint64 { return s.n.Load() }
