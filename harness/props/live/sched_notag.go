//go:build !verif

package live

// Without the "verif" build tag the repository's hook points are inert: the scheduler
// exists only so that the package builds; checks are always built with -tags verif.
type Sched struct {
	Hits  map[string]int
	Aggro int
}

func NewSched(seed uint64, aggro int) *Sched  { return &Sched{Hits: map[string]int{}, Aggro: aggro} }
func (s *Sched) Install()                     {}
func Uninstall()                              {}
func (s *Sched) Signature() uint64            { return 0 }
func (s *Sched) Total() uint64                { return 0 }
func (s *Sched) HitsSnapshot() map[string]int { return s.Hits }
