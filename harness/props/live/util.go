package live

import (
	"github.com/ethereum/go-ethereum/common"
	"github.com/ethereum/go-ethereum/crypto"
)

func ethCreateAddress(a common.Address, n uint64) []byte { return crypto.CreateAddress(a, n).Bytes() }
