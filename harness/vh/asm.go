package vh

import (
	"encoding/binary"
	"fmt"
	"math/big"

	"github.com/ethereum/go-ethereum/common"
	"github.com/ethereum/go-ethereum/core/vm"
)

// Asm is a tiny EVM assembler with labels (no solc in the sandbox).
type Asm struct {
	code   []byte
	labels map[string]int
	fixups map[int]string
}

func NewAsm() *Asm { return &Asm{labels: map[string]int{}, fixups: map[int]string{}} }

func (a *Asm) Op(ops ...vm.OpCode) *Asm {
	for _, o := range ops {
		a.code = append(a.code, byte(o))
	}
	return a
}

func (a *Asm) Raw(b ...byte) *Asm { a.code = append(a.code, b...); return a }

// Push pushes the minimal big-endian encoding of v (PUSH1 0 for zero).
func (a *Asm) Push(v *big.Int) *Asm {
	b := v.Bytes()
	if len(b) == 0 {
		b = []byte{0}
	}
	if len(b) > 32 {
		panic("push too wide")
	}
	a.code = append(a.code, byte(vm.PUSH1)+byte(len(b)-1))
	a.code = append(a.code, b...)
	return a
}

func (a *Asm) PushU(v uint64) *Asm { return a.Push(new(big.Int).SetUint64(v)) }

func (a *Asm) PushBytes(b []byte) *Asm {
	if len(b) == 0 || len(b) > 32 {
		panic("bad push width")
	}
	a.code = append(a.code, byte(vm.PUSH1)+byte(len(b)-1))
	a.code = append(a.code, b...)
	return a
}

func (a *Asm) PushAddr(ad common.Address) *Asm { return a.PushBytes(ad.Bytes()) }
func (a *Asm) PushHash(h common.Hash) *Asm   { return a.PushBytes(h.Bytes()) }

// PushLabel pushes a 2-byte code offset resolved at Bytes().
func (a *Asm) PushLabel(name string) *Asm {
	a.code = append(a.code, byte(vm.PUSH2))
	a.fixups[len(a.code)] = name
	a.code = append(a.code, 0, 0)
	return a
}

func (a *Asm) Label(name string) *Asm {
	a.labels[name] = len(a.code)
	a.code = append(a.code, byte(vm.JUMPDEST))
	return a
}

func (a *Asm) Jump(name string) *Asm  { return a.PushLabel(name).Op(vm.JUMP) }
func (a *Asm) JumpI(name string) *Asm { return a.PushLabel(name).Op(vm.JUMPI) }

func (a *Asm) Len() int { return len(a.code) }

func (a *Asm) Bytes() []byte {
	out := append([]byte{}, a.code...)
	for pos, name := range a.fixups {
		off, ok := a.labels[name]
		if !ok {
			panic("undefined label " + name)
		}
		binary.BigEndian.PutUint16(out[pos:], uint16(off))
	}
	return out
}

// MStoreBytes emits code that writes data into memory starting at offset off.
func (a *Asm) MStoreBytes(off int, data []byte) *Asm {
	for i := 0; i < len(data); i += 32 {
		var w [32]byte
		copy(w[:], data[i:])
		a.PushBytes(w[:]).PushU(uint64(off + i)).Op(vm.MSTORE)
	}
	return a
}

// SStore emits slot := value.
func (a *Asm) SStore(slot, value uint64) *Asm {
	return a.PushU(value).PushU(slot).Op(vm.SSTORE)
}

// Log emits LOGn with data word d at memory 0 and the given topics.
func (a *Asm) Log(d uint64, topics ...uint64) *Asm {
	a.PushU(d).PushU(0).Op(vm.MSTORE)
	for i := len(topics) - 1; i >= 0; i-- {
		a.PushU(topics[i])
	}
	a.PushU(32).PushU(0).Op(vm.LOG0 + vm.OpCode(len(topics)))
	return a
}

// CallKind selects the call opcode.
type CallKind int

const (
	CALL CallKind = iota
	CALLCODE
	DELEGATECALL
	STATICCALL
)

func (k CallKind) String() string {
	return [...]string{"CALL", "CALLCODE", "DELEGATECALL", "STATICCALL"}[k]
}

func (k CallKind) Op() vm.OpCode {
	return [...]vm.OpCode{vm.CALL, vm.CALLCODE, vm.DELEGATECALL, vm.STATICCALL}[k]
}

// CallMem emits a call with arguments at memory [argOff, argOff+argLen) and return area
// [retOff, retOff+retLen). gas == 0 means "all remaining gas" (GAS opcode). Leaves success flag on the stack.
func (a *Asm) CallMem(kind CallKind, to common.Address, value *big.Int, gas uint64, argOff, argLen, retOff, retLen int) *Asm {
	a.PushU(uint64(retLen)).PushU(uint64(retOff)).PushU(uint64(argLen)).PushU(uint64(argOff))
	if kind == CALL || kind == CALLCODE {
		if value == nil {
			value = new(big.Int)
		}
		a.Push(value)
	}
	a.PushAddr(to)
	if gas == 0 {
		a.Op(vm.GAS)
	} else {
		a.PushU(gas)
	}
	return a.Op(kind.Op())
}

// CallWithData stores data at memory 0 and performs the call; success flag stays on the stack.
func (a *Asm) CallWithData(kind CallKind, to common.Address, value *big.Int, gas uint64, data []byte, retLen int) *Asm {
	a.MStoreBytes(0, data)
	retOff := (len(data) + 31) / 32 * 32
	return a.CallMem(kind, to, value, gas, 0, len(data), retOff, retLen)
}

// Deployer wraps runtime code into init code that returns it.
func Deployer(runtime []byte) []byte {
	n := len(runtime)
	// PUSH2 n DUP1 PUSH1 0x0c PUSH1 0 CODECOPY PUSH1 0 RETURN
	init := []byte{0x61, byte(n >> 8), byte(n), 0x80, 0x60, 0x0c, 0x60, 0x00, 0x39, 0x60, 0x00, 0xf3}
	return append(init, runtime...)
}

// Forwarder returns runtime code that forwards its calldata to target with the given call
// kind (value forwarded = CALLVALUE for CALL/CALLCODE) and all gas, then returns the
// callee's return data, or reverts with it when the callee failed and propagate is set;
// when propagate is false a failed call is ignored and success(0)/1 is returned as one word.
func Forwarder(kind CallKind, target common.Address, propagate bool) []byte {
	a := NewAsm()
	a.Op(vm.CALLDATASIZE).PushU(0).PushU(0).Op(vm.CALLDATACOPY) // mem[0..cds) = calldata
	a.PushU(0).PushU(0).Op(vm.CALLDATASIZE).PushU(0)            // retLen retOff argLen argOff
	if kind == CALL || kind == CALLCODE {
		a.Op(vm.CALLVALUE)
	}
	a.PushAddr(target).Op(vm.GAS).Op(kind.Op())
	// copy return data to mem 0
	a.Op(vm.RETURNDATASIZE).PushU(0).PushU(0).Op(vm.RETURNDATACOPY)
	if propagate {
		a.JumpI("ok")
		a.Op(vm.RETURNDATASIZE).PushU(0).Op(vm.REVERT)
		a.Label("ok")
		a.Op(vm.RETURNDATASIZE).PushU(0).Op(vm.RETURN)
	} else {
		a.Op(vm.POP)
		a.Op(vm.RETURNDATASIZE).PushU(0).Op(vm.RETURN)
	}
	return a.Bytes()
}

// Sel returns the 4-byte selector words helper: pads data to 32-byte words is not needed here.
func Word(v *big.Int) []byte { return common.LeftPadBytes(v.Bytes(), 32) }
func WordU(v uint64) []byte   { return Word(new(big.Int).SetUint64(v)) }
func WordAddr(a common.Address) []byte { return common.LeftPadBytes(a.Bytes(), 32) }

// Disasm renders bytecode for witnesses.
func Disasm(code []byte) string {
	s := ""
	for i := 0; i < len(code); i++ {
		op := vm.OpCode(code[i])
		if op.IsPush() {
			n := int(op) - int(vm.PUSH1) + 1
			end := i + 1 + n
			if end > len(code) {
				end = len(code)
			}
			s += fmt.Sprintf("%s 0x%x ", op, code[i+1:end])
			i += n
		} else {
			s += op.String() + " "
		}
	}
	return s
}
