package vh

import (
	"crypto/ecdsa"
	"crypto/sha256"
	"encoding/binary"
	"encoding/json"
	"fmt"
	"math/big"
	"os"
	"path/filepath"
	"sort"
	"sync"
	"sync/atomic"
	"time"

	"cosmossdk.io/log"
	sdkmath "cosmossdk.io/math"
	storetypes "cosmossdk.io/store/types"
	abci "github.com/cometbft/cometbft/abci/types"
	cmted25519 "github.com/cometbft/cometbft/crypto/ed25519"
	tmproto "github.com/cometbft/cometbft/proto/tendermint/types"
	cmttypes "github.com/cometbft/cometbft/types"
	dbm "github.com/cosmos/cosmos-db"
	"github.com/cosmos/cosmos-sdk/baseapp"
	codectypes "github.com/cosmos/cosmos-sdk/codec/types"
	cryptocodec "github.com/cosmos/cosmos-sdk/crypto/codec"
	simtestutil "github.com/cosmos/cosmos-sdk/testutil/sims"
	sdk "github.com/cosmos/cosmos-sdk/types"
	authtypes "github.com/cosmos/cosmos-sdk/x/auth/types"
	vestingtypes "github.com/cosmos/cosmos-sdk/x/auth/vesting/types"
	banktypes "github.com/cosmos/cosmos-sdk/x/bank/types"
	minttypes "github.com/cosmos/cosmos-sdk/x/mint/types"
	slashingtypes "github.com/cosmos/cosmos-sdk/x/slashing/types"
	stakingtypes "github.com/cosmos/cosmos-sdk/x/staking/types"
	"github.com/ethereum/go-ethereum/common"
	ethcrypto "github.com/ethereum/go-ethereum/crypto"

	chainapp "github.com/EscanBE/evermint/v12/app"
	"github.com/EscanBE/evermint/v12/app/params"
	cmdcfg "github.com/EscanBE/evermint/v12/cmd/config"
	"github.com/EscanBE/evermint/v12/constants"
	"github.com/EscanBE/evermint/v12/crypto/ethsecp256k1"
	cpctypes "github.com/EscanBE/evermint/v12/x/cpc/types"
	evmtypes "github.com/EscanBE/evermint/v12/x/evm/types"
	feemarkettypes "github.com/EscanBE/evermint/v12/x/feemarket/types"
)

const (
	ChainID     = constants.TestnetFullChainId
	EIP155ID    = constants.TestnetEIP155ChainId
	Denom       = constants.BaseDenom
	SecondDenom = "uatom2"
)

var initOnce sync.Once

// InitSDK sets the global bech32 prefixes (idempotent).
func InitSDK() {
	initOnce.Do(func() {
		cfg := sdk.GetConfig()
		cmdcfg.SetBech32Prefixes(cfg)
		cmdcfg.SetBip44CoinType(cfg)
	})
}

// Acct is a key-holding participant.
type Acct struct {
	Key  *ecdsa.PrivateKey
	Addr common.Address
}

func (a *Acct) Acc() sdk.AccAddress { return sdk.AccAddress(a.Addr.Bytes()) }
func (a *Acct) Bech32() string      { return a.Acc().String() }
func (a *Acct) PrivKey() *ethsecp256k1.PrivKey {
	return &ethsecp256k1.PrivKey{Key: ethcrypto.FromECDSA(a.Key)}
}

// NewAcct derives a deterministic account from a PRNG.
func NewAcct(r *RNG) *Acct {
	for {
		k, err := ethcrypto.ToECDSA(r.Bytes(32))
		if err == nil {
			return &Acct{Key: k, Addr: ethcrypto.PubkeyToAddress(k.PublicKey)}
		}
	}
}

// GenAccount describes one genesis account.
type GenAccount struct {
	Addr  common.Address
	Coins sdk.Coins
	// Kind: "" / "base", "delayed", "continuous", "periodic", "permanent"
	Kind        string
	VestStart   int64
	VestEnd     int64
	OrigVesting sdk.Coins
	Sequence    uint64
	// RawAddr, when set, is used instead of Addr: an account address of any length (e.g. 32 bytes, like module-derived or
	// interchain accounts have). Base accounts only.
	RawAddr []byte
	// NoAuthAccount: only the bank balance goes into the genesis, no x/auth account record ("orphan balance")
	NoAuthAccount bool
}

func (ga GenAccount) addrBytes() []byte {
	if len(ga.RawAddr) > 0 {
		return ga.RawAddr
	}
	return ga.Addr.Bytes()
}

// Config of a generated chain.
type Config struct {
	Seed          uint64
	NumVals       int     // default 1
	ValPowers     []int64 // voting power units (each = 1e18 bonded), default 1 each
	ValCommission []string
	MaxGas        int64 // consensus Block.MaxGas; 0 value means "use -1"; use MaxGasSet to pass 0
	MaxGasSet     bool
	BaseFee       *big.Int // default 1e9
	MinGasPrice   string   // LegacyDec, default "0"
	Inflation     bool     // default false: mint inflation forced to 0
	Erc20Native   bool
	StakingCPC    bool
	CpcWhitelist  []string
	GenesisTime   time.Time // default 2023-11-14T22:13:20Z
	BlockStep     time.Duration
	Accounts      []GenAccount
	SlashWindow   int64
	UnbondingTime time.Duration
	MutateGenesis func(cdc params.EncodingConfig, gs chainapp.GenesisState)
	DB            dbm.DB
	AppOpts       map[string]any
	BaseAppOpts   []func(*baseapp.BaseApp)
	Home          string
	NoObserver    bool
	NoFirstBlock  bool
	KeepBlocks    bool // keep every BlockResult in Chain.Blocks (from block 1 on)
	Logger        log.Logger
}

// Mode of a transaction execution as seen by the observer.
type Mode int

const (
	ModeDeliver Mode = iota
	ModeCheck
	ModeReCheck
	ModeSimulate
	ModeOther
)

func (m Mode) String() string {
	return [...]string{"deliver", "check", "recheck", "simulate", "other"}[m]
}

// TxObs is handed to observers at the start of every decodable transaction, before the
// first real ante decorator, on the state left by the previous transaction.
type TxObs struct {
	Ctx      sdk.Context
	Tx       sdk.Tx
	Mode     Mode
	Sentinel bool
	Index    int // index of the tx within the block being delivered (deliver mode), else -1
}

type Validator struct {
	Priv  cmted25519.PrivKey
	Cons  sdk.ConsAddress
	Oper  sdk.ValAddress
	Power int64
	Acct  *Acct // operator account (has key)
}

// BlockOpt customises one block.
type BlockOpt struct {
	// BeforeCommit (RunObserved only) runs after FinalizeBlock and the final snapshot, before Commit: the window in
	// which a node's mempool connection still answers from the check state of the previous block
	BeforeCommit func()
	TimeStep     time.Duration
	Proposer     int             // index into current validator list
	Absent       map[string]bool // cons address (hex) -> absent vote
	Misbehavior  []abci.Misbehavior
	NoSentinel   bool
	NoCommit     bool
}

// BlockResult is the consensus-visible outcome of a block.
type BlockResult struct {
	Height  int64
	Time    time.Time
	Req     *abci.RequestFinalizeBlock
	Res     *abci.ResponseFinalizeBlock
	Err     error
	NTx     int      // number of real (non-sentinel) txs
	BaseFee *big.Int // base fee in force during this block
}

// TxResults returns the results of the real transactions (sentinel stripped).
func (b *BlockResult) TxResults() []*abci.ExecTxResult {
	if b.Res == nil {
		return nil
	}
	return b.Res.TxResults[:b.NTx]
}

// Chain drives one real application instance through the ABCI interface.
type Chain struct {
	InitBaseFee *big.Int // base fee in force right after InitChain, before the first block (nil if unreadable)
	Cfg         Config
	App         *chainapp.Evermint
	Enc         params.EncodingConfig
	DB          dbm.DB
	Vals        []*Validator // genesis validators
	Height      int64
	Time        time.Time
	LastHash    []byte
	Blocks      []*BlockResult
	KeepBlocks  bool
	Genesis     *abci.RequestInitChain
	observers   []func(*TxObs)
	curIndex    int32
	inBlock     atomic.Bool
	sentinel    []byte
	valsetAt    map[int64][]abci.ValidatorUpdate // not used for lookup; kept for evidence
	curVals     map[string]*abci.Validator       // cons addr hex -> validator (set that signs next LastCommit)
	pending     [][]abci.ValidatorUpdate
	home        string
}

var homeCounter atomic.Int64
var appCreateMu sync.Mutex

func defaultGenesisTime() time.Time { return time.Unix(1700000000, 0).UTC() }

// OnTx registers an observer.
func (c *Chain) OnTx(f func(*TxObs)) { c.observers = append(c.observers, f) }

// ClearObservers removes all observers.
func (c *Chain) ClearObservers() { c.observers = nil }

// NewApp constructs an application instance over db with the tx-boundary observer installed.
func (c *Chain) newApp(db dbm.DB) *chainapp.Evermint {
	InitSDK()
	appCreateMu.Lock()
	defer appCreateMu.Unlock()
	cfg := c.Cfg
	home := cfg.Home
	if home == "" {
		base := os.Getenv("VERIF_SCRATCH")
		if base == "" {
			base = filepath.Join(Root(), ".build", "scratch")
		}
		home = filepath.Join(base, fmt.Sprintf("home-%d-%d", os.Getpid(), homeCounter.Add(1)))
	}
	_ = os.MkdirAll(home, 0o755)
	c.home = home
	opts := simtestutil.AppOptionsMap{}
	opts["home"] = home
	for k, v := range cfg.AppOpts {
		opts[k] = v
	}
	logger := cfg.Logger
	if logger == nil {
		logger = log.NewNopLogger()
	}
	bopts := append([]func(*baseapp.BaseApp){baseapp.SetChainID(ChainID)}, cfg.BaseAppOpts...)
	app := chainapp.NewEvermint(logger, db, nil, false, map[int64]bool{}, home, 0, c.Enc, opts, bopts...)
	if !cfg.NoObserver {
		orig := app.AnteHandler()
		app.SetAnteHandler(func(ctx sdk.Context, tx sdk.Tx, simulate bool) (sdk.Context, error) {
			if len(c.observers) > 0 {
				o := &TxObs{Ctx: ctx, Tx: tx, Index: -1}
				switch {
				case simulate:
					o.Mode = ModeSimulate
				case ctx.IsReCheckTx():
					o.Mode = ModeReCheck
				case ctx.IsCheckTx():
					o.Mode = ModeCheck
				case ctx.ExecMode() == sdk.ExecModeFinalize:
					o.Mode = ModeDeliver
					o.Index = int(atomic.AddInt32(&c.curIndex, 1) - 1)
				default:
					o.Mode = ModeOther
				}
				if o.Mode == ModeDeliver && c.sentinel != nil && string(ctx.TxBytes()) == string(c.sentinel) {
					o.Sentinel = true
				}
				for _, f := range c.observers {
					f(o)
				}
			}
			return orig(ctx, tx, simulate)
		})
	}
	if err := app.LoadLatestVersion(); err != nil {
		panic(err)
	}
	return app
}

// Cleanup removes the scratch home directory of this chain.
func (c *Chain) Cleanup() {
	if c.home != "" && c.Cfg.Home == "" {
		_ = os.RemoveAll(c.home)
	}
}

// NewChain builds the genesis from cfg, creates the application and runs InitChain.
func NewChain(cfg Config) *Chain {
	c := PrepareChain(cfg)
	c.Init()
	return c
}

// PrepareChain builds genesis and application but does not call InitChain.
func PrepareChain(cfg Config) *Chain {
	InitSDK()
	if cfg.NumVals == 0 {
		cfg.NumVals = 1
	}
	if cfg.GenesisTime.IsZero() {
		cfg.GenesisTime = defaultGenesisTime()
	}
	if cfg.BlockStep == 0 {
		cfg.BlockStep = 5 * time.Second
	}
	if cfg.BaseFee == nil {
		cfg.BaseFee = big.NewInt(1_000_000_000)
	}
	if cfg.MinGasPrice == "" {
		cfg.MinGasPrice = "0"
	}
	if !cfg.MaxGasSet && cfg.MaxGas == 0 {
		cfg.MaxGas = -1
	}
	c := &Chain{Cfg: cfg, Enc: chainapp.RegisterEncodingConfig(), curVals: map[string]*abci.Validator{}, KeepBlocks: cfg.KeepBlocks}
	c.DB = cfg.DB
	if c.DB == nil {
		c.DB = dbm.NewMemDB()
	}
	c.App = c.newApp(c.DB)
	c.Genesis = c.buildGenesis()
	c.Time = cfg.GenesisTime
	c.sentinel = c.buildSentinel()
	return c
}

// Init runs InitChain (height 0 -> first block is 1).
func (c *Chain) Init() {
	res, err := c.App.InitChain(c.Genesis)
	if err != nil {
		panic(fmt.Errorf("InitChain: %w", err))
	}
	for i := range res.Validators {
		c.applyValUpdate(res.Validators[i])
	}
	if len(res.Validators) == 0 {
		for _, v := range c.Vals {
			c.curVals[fmt.Sprintf("%x", []byte(v.Cons))] = &abci.Validator{Address: v.Cons, Power: v.Power}
		}
	}
	c.LastHash = res.AppHash
	// the base fee InitChain left in force for the first block (read from the not yet committed genesis state)
	func() {
		defer func() { _ = recover() }()
		c.InitBaseFee = c.App.FeeMarketKeeper.GetBaseFee(c.App.GetContextForFinalizeBlock(nil)).BigInt()
	}()
	// InitChain state only becomes queryable after the first commit: run an empty block 1.
	if !c.Cfg.NoFirstBlock {
		if br := c.NextBlock(nil, nil); br.Err != nil {
			panic(fmt.Errorf("first block: %w", br.Err))
		}
	}
}

func (c *Chain) applyValUpdate(u abci.ValidatorUpdate) {
	pk, err := cryptocodec.FromCmtProtoPublicKey(u.PubKey)
	if err != nil {
		return
	}
	addr := sdk.ConsAddress(pk.Address())
	k := fmt.Sprintf("%x", []byte(addr))
	if u.Power == 0 {
		delete(c.curVals, k)
	} else {
		c.curVals[k] = &abci.Validator{Address: addr, Power: u.Power}
	}
}

// CurrentValidators returns the validator set that signs the next block's last commit, sorted by address.
func (c *Chain) CurrentValidators() []abci.Validator {
	keys := make([]string, 0, len(c.curVals))
	for k := range c.curVals {
		keys = append(keys, k)
	}
	sort.Strings(keys)
	out := make([]abci.Validator, 0, len(keys))
	for _, k := range keys {
		out = append(out, *c.curVals[k])
	}
	return out
}

func (c *Chain) buildGenesis() *abci.RequestInitChain {
	cfg := c.Cfg
	cdc := c.App.AppCodec()
	gs := chainapp.NewDefaultGenesisState(c.Enc)
	kr := Derive(cfg.Seed, "valkeys", 0)

	var genAccs []authtypes.GenesisAccount
	var balances []banktypes.Balance
	supply := sdk.NewCoins()
	accNum := uint64(0)
	addAcc := func(ga GenAccount) {
		base := authtypes.NewBaseAccount(sdk.AccAddress(ga.addrBytes()), nil, accNum, ga.Sequence)
		accNum++
		var acc authtypes.GenesisAccount = base
		ov := ga.OrigVesting
		switch ga.Kind {
		case "", "base":
		case "delayed":
			bva, err := vestingtypes.NewBaseVestingAccount(base, ov, ga.VestEnd)
			if err != nil {
				panic(err)
			}
			acc = vestingtypes.NewDelayedVestingAccountRaw(bva)
		case "continuous":
			bva, err := vestingtypes.NewBaseVestingAccount(base, ov, ga.VestEnd)
			if err != nil {
				panic(err)
			}
			acc = vestingtypes.NewContinuousVestingAccountRaw(bva, ga.VestStart)
		case "periodic":
			bva, err := vestingtypes.NewBaseVestingAccount(base, ov, ga.VestEnd)
			if err != nil {
				panic(err)
			}
			n := int64(4)
			length := (ga.VestEnd - ga.VestStart) / n
			if length < 1 {
				length = 1
			}
			var periods vestingtypes.Periods
			rem := ov
			for i := int64(0); i < n; i++ {
				var amt sdk.Coins
				if i == n-1 {
					amt = rem
				} else {
					amt = sdk.NewCoins()
					for _, cn := range ov {
						amt = amt.Add(sdk.NewCoin(cn.Denom, cn.Amount.QuoRaw(n)))
					}
					rem = rem.Sub(amt...)
				}
				l := length
				if i == n-1 {
					l = (ga.VestEnd - ga.VestStart) - length*(n-1)
					if l < 1 {
						l = 1
					}
				}
				periods = append(periods, vestingtypes.Period{Length: l, Amount: amt})
			}
			acc = vestingtypes.NewPeriodicVestingAccountRaw(bva, ga.VestStart, periods)
		case "permanent":
			pa, err := vestingtypes.NewPermanentLockedAccount(base, ov)
			if err != nil {
				panic(err)
			}
			acc = pa
		default:
			panic("unknown account kind " + ga.Kind)
		}
		if !ga.NoAuthAccount { // a balance without an account record: valid genesis (x/auth creates records lazily)
			genAccs = append(genAccs, acc)
		}
		if !ga.Coins.IsZero() {
			balances = append(balances, banktypes.Balance{Address: sdk.AccAddress(ga.addrBytes()).String(), Coins: ga.Coins.Sort()})
			supply = supply.Add(ga.Coins...)
		}
	}

	// validators
	bond := sdk.DefaultPowerReduction
	var validators []stakingtypes.Validator
	var delegations []stakingtypes.Delegation
	var signingInfos []slashingtypes.SigningInfo
	bondedTotal := sdkmath.ZeroInt()
	for i := 0; i < cfg.NumVals; i++ {
		priv := cmted25519.GenPrivKeyFromSecret(kr.Bytes(32))
		oper := NewAcct(kr)
		power := int64(1)
		if i < len(cfg.ValPowers) {
			power = cfg.ValPowers[i]
		}
		v := &Validator{Priv: priv, Power: power, Acct: oper, Oper: sdk.ValAddress(oper.Addr.Bytes())}
		v.Cons = sdk.ConsAddress(priv.PubKey().Address())
		c.Vals = append(c.Vals, v)
		pk, err := cryptocodec.FromCmtPubKeyInterface(cmttypes.NewValidator(priv.PubKey(), power).PubKey)
		if err != nil {
			panic(err)
		}
		pkAny, _ := codectypes.NewAnyWithValue(pk)
		tokens := bond.MulRaw(power)
		comm := sdkmath.LegacyZeroDec()
		if i < len(cfg.ValCommission) {
			comm = sdkmath.LegacyMustNewDecFromStr(cfg.ValCommission[i])
		}
		validators = append(validators, stakingtypes.Validator{
			OperatorAddress: v.Oper.String(), ConsensusPubkey: pkAny, Status: stakingtypes.Bonded,
			Tokens: tokens, DelegatorShares: sdkmath.LegacyNewDecFromInt(tokens),
			Description:       stakingtypes.Description{Moniker: fmt.Sprintf("val%d", i)},
			UnbondingTime:     time.Unix(0, 0).UTC(),
			Commission:        stakingtypes.NewCommission(comm, sdkmath.LegacyOneDec(), sdkmath.LegacyOneDec()),
			MinSelfDelegation: sdkmath.OneInt(),
		})
		delegations = append(delegations, stakingtypes.NewDelegation(oper.Bech32(), v.Oper.String(), sdkmath.LegacyNewDecFromInt(tokens)))
		bondedTotal = bondedTotal.Add(tokens)
		addAcc(GenAccount{Addr: oper.Addr, Coins: sdk.NewCoins(sdk.NewCoin(Denom, sdkmath.NewIntFromBigInt(Ether(1000))))})
		signingInfos = append(signingInfos, slashingtypes.SigningInfo{
			Address: v.Cons.String(), ValidatorSigningInfo: slashingtypes.NewValidatorSigningInfo(v.Cons, 0, 0, time.Unix(0, 0).UTC(), false, 0)})
	}
	for _, ga := range cfg.Accounts {
		addAcc(ga)
	}

	authGen := authtypes.NewGenesisState(authtypes.DefaultParams(), genAccs)
	gs[authtypes.ModuleName] = cdc.MustMarshalJSON(authGen)

	sp := stakingtypes.DefaultParams()
	sp.BondDenom = Denom
	sp.MaxValidators = 8
	if cfg.UnbondingTime != 0 {
		sp.UnbondingTime = cfg.UnbondingTime
	}
	gs[stakingtypes.ModuleName] = cdc.MustMarshalJSON(stakingtypes.NewGenesisState(sp, validators, delegations))

	balances = append(balances, banktypes.Balance{
		Address: authtypes.NewModuleAddress(stakingtypes.BondedPoolName).String(),
		Coins:   sdk.NewCoins(sdk.NewCoin(Denom, bondedTotal))})
	supply = supply.Add(sdk.NewCoin(Denom, bondedTotal))
	gs[banktypes.ModuleName] = cdc.MustMarshalJSON(banktypes.NewGenesisState(banktypes.DefaultGenesisState().Params, balances, supply, []banktypes.Metadata{}, []banktypes.SendEnabled{}))

	{
		var sg slashingtypes.GenesisState
		cdc.MustUnmarshalJSON(gs[slashingtypes.ModuleName], &sg)
		if cfg.SlashWindow > 0 {
			sg.Params.SignedBlocksWindow = cfg.SlashWindow
			sg.Params.MinSignedPerWindow = sdkmath.LegacyMustNewDecFromStr("0.5")
			sg.Params.DowntimeJailDuration = 10 * time.Second
		}
		sg.SigningInfos = signingInfos
		gs[slashingtypes.ModuleName] = cdc.MustMarshalJSON(&sg)
	}
	{
		var mg minttypes.GenesisState
		cdc.MustUnmarshalJSON(gs[minttypes.ModuleName], &mg)
		mg.Params.MintDenom = Denom
		if !cfg.Inflation {
			mg.Params.InflationMin = sdkmath.LegacyZeroDec()
			mg.Params.InflationMax = sdkmath.LegacyZeroDec()
			mg.Params.InflationRateChange = sdkmath.LegacyZeroDec()
			mg.Minter.Inflation = sdkmath.LegacyZeroDec()
			mg.Minter.AnnualProvisions = sdkmath.LegacyZeroDec()
		}
		gs[minttypes.ModuleName] = cdc.MustMarshalJSON(&mg)
	}
	{
		fg := feemarkettypes.GenesisState{Params: feemarkettypes.Params{
			BaseFee: sdkmath.NewIntFromBigInt(cfg.BaseFee), MinGasPrice: sdkmath.LegacyMustNewDecFromStr(cfg.MinGasPrice)}}
		gs[feemarkettypes.ModuleName] = cdc.MustMarshalJSON(&fg)
	}
	{
		var cg cpctypes.GenesisState
		cdc.MustUnmarshalJSON(gs[cpctypes.ModuleName], &cg)
		cg.DeployErc20Native = cfg.Erc20Native
		cg.DeployStakingContract = cfg.StakingCPC
		cg.Params.WhitelistedDeployers = cfg.CpcWhitelist
		gs[cpctypes.ModuleName] = cdc.MustMarshalJSON(&cg)
	}
	if cfg.MutateGenesis != nil {
		cfg.MutateGenesis(c.Enc, gs)
	}
	stateBytes, err := json.Marshal(gs)
	if err != nil {
		panic(err)
	}
	cp := &tmproto.ConsensusParams{
		Block:     &tmproto.BlockParams{MaxBytes: 4_000_000, MaxGas: cfg.MaxGas},
		Evidence:  &tmproto.EvidenceParams{MaxAgeNumBlocks: 302400, MaxAgeDuration: 504 * time.Hour, MaxBytes: 10000},
		Validator: &tmproto.ValidatorParams{PubKeyTypes: []string{cmttypes.ABCIPubKeyTypeEd25519}},
	}
	return &abci.RequestInitChain{ChainId: ChainID, Time: cfg.GenesisTime, InitialHeight: 1,
		Validators: []abci.ValidatorUpdate{}, ConsensusParams: cp, AppStateBytes: stateBytes}
}

func headerHash(height int64, t time.Time) []byte {
	var b [16]byte
	binary.BigEndian.PutUint64(b[:8], uint64(height))
	binary.BigEndian.PutUint64(b[8:], uint64(t.UnixNano()))
	h := sha256.Sum256(b[:])
	return h[:]
}

// NextBlock composes, finalizes and commits one block holding txs (plus the sentinel).
func (c *Chain) NextBlock(txs [][]byte, opt *BlockOpt) *BlockResult {
	if opt == nil {
		opt = &BlockOpt{}
	}
	step := opt.TimeStep
	if step == 0 {
		step = c.Cfg.BlockStep
	}
	c.Height++
	c.Time = c.Time.Add(step)
	vals := c.CurrentValidators()
	if len(vals) == 0 {
		panic("no validators left")
	}
	prop := vals[opt.Proposer%len(vals)]
	var votes []abci.VoteInfo
	for _, v := range vals {
		flag := tmproto.BlockIDFlagCommit
		if opt.Absent != nil && opt.Absent[fmt.Sprintf("%x", v.Address)] {
			flag = tmproto.BlockIDFlagAbsent
		}
		votes = append(votes, abci.VoteInfo{Validator: v, BlockIdFlag: flag})
	}
	all := txs
	if !opt.NoSentinel {
		all = append(append([][]byte{}, txs...), c.sentinel)
	}
	req := &abci.RequestFinalizeBlock{
		Height: c.Height, Time: c.Time, Txs: all, ProposerAddress: prop.Address,
		Hash: headerHash(c.Height, c.Time), NextValidatorsHash: headerHash(c.Height+1, c.Time),
		DecidedLastCommit: abci.CommitInfo{Votes: votes}, Misbehavior: opt.Misbehavior,
	}
	return c.Finalize(req, len(txs), !opt.NoCommit)
}

// Finalize runs a prepared FinalizeBlock request (used by replay followers too).
func (c *Chain) Finalize(req *abci.RequestFinalizeBlock, nReal int, commit bool) *BlockResult {
	br := &BlockResult{Height: req.Height, Time: req.Time, Req: req, NTx: nReal}
	br.BaseFee = c.BaseFee()
	atomic.StoreInt32(&c.curIndex, 0)
	c.inBlock.Store(true)
	res, err := c.App.FinalizeBlock(req)
	c.inBlock.Store(false)
	br.Res, br.Err = res, err
	c.Height, c.Time = req.Height, req.Time
	if err == nil {
		// CometBFT applies updates returned at H to the set that votes from H+2 on; the set used
		// for the next block's DecidedLastCommit is the one in force at H+1.
		c.pending = append(c.pending, res.ValidatorUpdates)
		if len(c.pending) > 1 {
			for _, u := range c.pending[0] {
				c.applyValUpdate(u)
			}
			c.pending = c.pending[1:]
		}
		c.LastHash = res.AppHash
		if commit {
			if _, err := c.App.Commit(); err != nil {
				br.Err = err
			}
		}
	}
	if c.KeepBlocks {
		c.Blocks = append(c.Blocks, br)
	}
	return br
}

// Header of the latest committed block (for query contexts).
func (c *Chain) Header() tmproto.Header {
	return tmproto.Header{ChainID: ChainID, Height: c.Height, Time: c.Time}
}

// QueryCtx returns a throw-away branch of the latest committed state.
func (c *Chain) QueryCtx() sdk.Context {
	h := c.Header()
	if h.Height == 0 {
		h.Height = 1
	}
	if c.App.LastBlockHeight() == 0 {
		if c.Cfg.NoFirstBlock && !c.inBlock.Load() {
			// nothing committed yet: the genesis state lives in the state InitChain prepared for the first block
			var gctx sdk.Context
			ok := func() (ok bool) {
				defer func() { ok = recover() == nil }()
				gctx = c.App.GetContextForFinalizeBlock(nil).WithBlockHeader(h)
				return true
			}()
			if ok {
				gc, _ := gctx.CacheContext()
				return gc.WithBlockGasMeter(storetypes.NewInfiniteGasMeter()).WithGasMeter(storetypes.NewInfiniteGasMeter())
			}
		}
	}
	ctx := c.App.NewUncachedContext(false, h)
	cc, _ := ctx.CacheContext()
	return cc.WithBlockGasMeter(storetypes.NewInfiniteGasMeter()).WithGasMeter(storetypes.NewInfiniteGasMeter())
}

// BaseFee in the committed state.
func (c *Chain) BaseFee() *big.Int {
	return c.App.FeeMarketKeeper.GetBaseFee(c.QueryCtx()).BigInt()
}

// Nonce of an address in the committed state.
func (c *Chain) Nonce(a common.Address) uint64 {
	return c.App.EvmKeeper.GetNonce(c.QueryCtx(), a)
}

// Balance (evm denom) in committed state.
func (c *Chain) Balance(a common.Address) *big.Int {
	return c.App.BankKeeper.GetBalance(c.QueryCtx(), a.Bytes(), Denom).Amount.BigInt()
}

// Ether returns n * 1e18.
func Ether(n int64) *big.Int {
	return new(big.Int).Mul(big.NewInt(n), new(big.Int).Exp(big.NewInt(10), big.NewInt(18), nil))
}

// Coins helper: n ether of the native denom.
func NativeCoins(n int64) sdk.Coins {
	return sdk.NewCoins(sdk.NewCoin(Denom, sdkmath.NewIntFromBigInt(Ether(n))))
}

var _ = evmtypes.ModuleName
