package vh

import (
	abci "github.com/cometbft/cometbft/abci/types"
	sdk "github.com/cosmos/cosmos-sdk/types"
	"github.com/cosmos/gogoproto/proto"
	"github.com/ethereum/go-ethereum/common"

	evmtypes "github.com/EscanBE/evermint/v12/x/evm/types"
)

// EthResponse decodes the MsgEthereumTxResponse carried in ExecTxResult.Data (nil if absent).
func EthResponse(res *abci.ExecTxResult) *evmtypes.MsgEthereumTxResponse {
	if len(res.Data) == 0 {
		return nil
	}
	var td sdk.TxMsgData
	if err := proto.Unmarshal(res.Data, &td); err != nil {
		return nil
	}
	for _, any := range td.MsgResponses {
		var r evmtypes.MsgEthereumTxResponse
		if err := proto.Unmarshal(any.Value, &r); err == nil && any.TypeUrl == "/"+proto.MessageName(&r) {
			return &r
		}
	}
	return nil
}

// EvmView returns the comparable projection of an account in evermint's state (through ctx).
func (c *Chain) EvmView(ctx sdk.Context, a common.Address) AcctView {
	app := c.App
	v := AcctView{Storage: map[string]string{}}
	acc := app.AccountKeeper.GetAccount(ctx, a.Bytes())
	v.Exists = acc != nil
	if acc != nil {
		v.Nonce = acc.GetSequence()
	}
	v.Balance = app.BankKeeper.GetBalance(ctx, a.Bytes(), Denom).Amount.String()
	ch := app.EvmKeeper.GetCodeHash(ctx, a.Bytes())
	if ch == (common.Hash{}) || ch == emptyCodeHash {
		v.CodeHash = ""
	} else {
		v.CodeHash = ch.Hex()
	}
	app.EvmKeeper.ForEachStorage(ctx, a, func(k, val common.Hash) bool {
		// a stored all-zero value reads as 0 exactly like an absent slot: same observable storage
		if val != (common.Hash{}) {
			v.Storage[k.Hex()] = val.Hex()
		} else {
			v.ZeroSlots++
		}
		return true
	})
	return v
}
