package vh

import (
	"bytes"
	"crypto/sha256"
	"encoding/hex"
	"fmt"
	"sort"

	storetypes "cosmossdk.io/store/types"
	sdk "github.com/cosmos/cosmos-sdk/types"
)

// Dump is a full copy of every KV store: key = storeName + "\x00" + rawKey.
type Dump map[string]string

// StoreNames returns the sorted KV store names of the app.
func (c *Chain) StoreNames() []string {
	var names []string
	for n := range c.App.GetKVStoreKey() {
		names = append(names, n)
	}
	sort.Strings(names)
	return names
}

// DumpStores copies every KV store visible through ctx (no gas metering, no tracing).
// stores == nil means all KV stores.
func (c *Chain) DumpStores(ctx sdk.Context, stores ...string) Dump {
	d := Dump{}
	keys := c.App.GetKVStoreKey()
	if len(stores) == 0 {
		stores = c.StoreNames()
	}
	ms := ctx.MultiStore()
	for _, name := range stores {
		k := keys[name]
		if k == nil {
			continue
		}
		dumpOne(d, name, ms.GetKVStore(k))
	}
	return d
}

// DumpTransient copies the EVM and fee-market transient stores.
func (c *Chain) DumpTransient(ctx sdk.Context) Dump {
	d := Dump{}
	for name, k := range c.App.GetTransientStoreKey() {
		dumpOne(d, "t:"+name, ctx.MultiStore().GetKVStore(k))
	}
	return d
}

func dumpOne(d Dump, name string, st storetypes.KVStore) {
	it := st.Iterator(nil, nil)
	defer it.Close()
	for ; it.Valid(); it.Next() {
		d[name+"\x00"+string(it.Key())] = string(it.Value())
	}
}

// Hash of a dump (order independent of map iteration).
func (d Dump) Hash() string {
	keys := make([]string, 0, len(d))
	for k := range d {
		keys = append(keys, k)
	}
	sort.Strings(keys)
	h := sha256.New()
	for _, k := range keys {
		fmt.Fprintf(h, "%d:%s%d:%s", len(k), k, len(d[k]), d[k])
	}
	return hex.EncodeToString(h.Sum(nil))
}

// Change is one differing key between two dumps.
type Change struct {
	Store string
	Key   []byte
	Old   []byte // nil = absent
	New   []byte // nil = absent
}

func (c Change) String() string {
	f := func(b []byte) string {
		if b == nil {
			return "-"
		}
		if len(b) > 48 {
			return hex.EncodeToString(b[:48]) + "…"
		}
		return hex.EncodeToString(b)
	}
	return fmt.Sprintf("%s/%x: %s -> %s", c.Store, c.Key, f(c.Old), f(c.New))
}

// Diff lists every key whose value differs between a (before) and b (after), sorted.
func Diff(a, b Dump) []Change {
	var out []Change
	split := func(k string) (string, []byte) {
		i := bytes.IndexByte([]byte(k), 0)
		return k[:i], []byte(k[i+1:])
	}
	for k, va := range a {
		vb, ok := b[k]
		if !ok {
			s, key := split(k)
			out = append(out, Change{Store: s, Key: key, Old: []byte(va), New: nil})
		} else if va != vb {
			s, key := split(k)
			out = append(out, Change{Store: s, Key: key, Old: []byte(va), New: []byte(vb)})
		}
	}
	for k, vb := range b {
		if _, ok := a[k]; !ok {
			s, key := split(k)
			out = append(out, Change{Store: s, Key: key, Old: nil, New: []byte(vb)})
		}
	}
	sort.Slice(out, func(i, j int) bool {
		if out[i].Store != out[j].Store {
			return out[i].Store < out[j].Store
		}
		return bytes.Compare(out[i].Key, out[j].Key) < 0
	})
	return out
}

// ChangeStrings renders a diff for witnesses.
func ChangeStrings(cs []Change) []string {
	out := make([]string, 0, len(cs))
	for _, c := range cs {
		out = append(out, c.String())
	}
	return out
}
