package vh

import (
	"encoding/json"
	"fmt"
	"os"
	"path/filepath"
	"sort"
	"strconv"
	"strings"
	"sync"
	"time"
)

// Root is the /verif directory (overridable for runs from a snapshot).
func Root() string {
	if v := os.Getenv("VERIF_ROOT"); v != "" {
		return v
	}
	return "/verif"
}

// OutRoot is where evidence/ and replays/ are written: Root() unless VERIF_OUT_DIR redirects them
// (runs against seeded changes must not overwrite the committed evidence of the unchanged tree).
func OutRoot() string {
	if v := os.Getenv("VERIF_OUT_DIR"); v != "" {
		return v
	}
	return Root()
}

// KnownFinding is one entry of /verif/known_findings.json: a genuine defect of the
// repository that is recorded instead of repaired. Signature is the exact classifier
// string the monitor computes from a witness, so that a different violation of the
// same property has a different signature and is still reported.
type KnownFinding struct {
	Property  string `json:"property"`
	Signature string `json:"signature"`
	What      string `json:"what"`
}

type knownFile struct {
	Findings []KnownFinding `json:"findings"`
	Fixed    []string       `json:"fixed"`
}

type violation struct {
	Sig    string `json:"signature"`
	Case   string `json:"case"`
	Detail any    `json:"detail"`
}

// Run collects what one check invocation observed and turns it into the evidence file,
// the VIOLATION / KNOWN-FINDING lines and the exit code.
type Run struct {
	mu          sync.Mutex
	ID          string
	Tier        string
	Seed        uint64
	Level       string
	Rule        string
	Assumptions []string
	OnlyCase    string // when replaying: run only this case label
	start       time.Time
	evals       int64
	distinct    map[string]struct{}
	counters    map[string]int64
	sets        map[string]map[string]struct{}
	samples     []any
	maxSamples  int
	viol        []violation
	knownHits   map[string]int
	known       []KnownFinding
	floors      []string
	extra       map[string]any
	exhaustive  bool
}

// Thorough reports whether the thorough tier was requested.
func (r *Run) Thorough() bool { return r.Tier == "thorough" }

// N picks the fixed case count for the tier.
func (r *Run) N(quick, thorough int) int {
	n := quick
	if r.Thorough() {
		n = thorough
	}
	if v := os.Getenv("VERIF_SCALE"); v != "" { // development aid: scale case counts (percent)
		if p, err := strconv.Atoi(v); err == nil && p > 0 {
			n = n * p / 100
			if n < 1 {
				n = 1
			}
		}
	}
	return n
}

// Start initialises a run for property id from the environment (VERIF_SEED, VERIF_TIER, VERIF_CASE).
func Start(id string) *Run {
	r := &Run{ID: id, Tier: "quick", Level: "exploration", start: time.Now(), maxSamples: 6,
		distinct: map[string]struct{}{}, counters: map[string]int64{}, sets: map[string]map[string]struct{}{},
		knownHits: map[string]int{}, extra: map[string]any{}}
	if t := os.Getenv("VERIF_TIER"); t == "thorough" || t == "quick" {
		r.Tier = t
	}
	for _, a := range os.Args[1:] {
		if a == "quick" || a == "thorough" {
			r.Tier = a
		}
	}
	if s := os.Getenv("VERIF_SEED"); s != "" {
		if v, err := strconv.ParseUint(s, 10, 64); err == nil {
			r.Seed = v
		} else if v, err := strconv.ParseInt(s, 10, 64); err == nil {
			r.Seed = uint64(v)
		}
	}
	r.OnlyCase = os.Getenv("VERIF_CASE")
	if r.OnlyCase == "" && os.Getenv("VERIF_CHILD_REPORT") == "" { // stale witnesses of earlier runs of this property
		if old, _ := filepath.Glob(filepath.Join(OutRoot(), "replays", id+"-*.json")); old != nil {
			for _, f := range old {
				_ = os.Remove(f)
			}
		}
	}
	var kf knownFile
	if b, err := os.ReadFile(filepath.Join(Root(), "known_findings.json")); err == nil {
		_ = json.Unmarshal(b, &kf)
	}
	for _, k := range kf.Findings {
		if k.Property == id {
			r.known = append(r.known, k)
		}
	}
	return r
}

// RNG returns the stream for (seed, property, label, idx).
func (r *Run) RNG(label string, idx int) *RNG { return Derive(r.Seed, r.ID+"/"+label, uint64(idx)) }

// WantCase tells whether a case label is to be run (always true unless replaying one case).
func (r *Run) WantCase(label string) bool { return r.OnlyCase == "" || r.OnlyCase == label }

func (r *Run) Eval(n int) { r.mu.Lock(); r.evals += int64(n); r.mu.Unlock() }

// Nontrivial records one distinct non-trivial case key.
func (r *Run) Nontrivial(key string) {
	r.mu.Lock()
	r.distinct[key] = struct{}{}
	r.mu.Unlock()
}

func (r *Run) Count(name string, n int) { r.mu.Lock(); r.counters[name] += int64(n); r.mu.Unlock() }

func (r *Run) Get(name string) int64 { r.mu.Lock(); defer r.mu.Unlock(); return r.counters[name] }

// Max keeps the maximum of a named gauge.
func (r *Run) Max(name string, v int64) {
	r.mu.Lock()
	if v > r.counters[name] {
		r.counters[name] = v
	}
	r.mu.Unlock()
}

// Distinct adds key to the named set; the evidence reports the set size (and its members when small).
func (r *Run) Distinct(set, key string) {
	r.mu.Lock()
	m := r.sets[set]
	if m == nil {
		m = map[string]struct{}{}
		r.sets[set] = m
	}
	m[key] = struct{}{}
	r.mu.Unlock()
}

func (r *Run) DistinctN(set string) int { r.mu.Lock(); defer r.mu.Unlock(); return len(r.sets[set]) }

func (r *Run) Sample(v any) {
	r.mu.Lock()
	if len(r.samples) < r.maxSamples {
		r.samples = append(r.samples, v)
	}
	r.mu.Unlock()
}

func (r *Run) Set(key string, v any) { r.mu.Lock(); r.extra[key] = v; r.mu.Unlock() }

func (r *Run) Exhaustive(b bool) { r.exhaustive = b }

// Violation records a refutation. sig is the classifier string matched (exactly) against
// known_findings.json; caseLabel identifies the generated case for replay.
func (r *Run) Violation(sig, caseLabel string, detail any) {
	r.mu.Lock()
	defer r.mu.Unlock()
	for _, k := range r.known {
		if k.Signature == sig {
			r.knownHits[sig]++
			return
		}
	}
	if len(r.viol) < 50 {
		r.viol = append(r.viol, violation{Sig: sig, Case: caseLabel, Detail: detail})
	} else {
		r.counters["violations_not_listed_individually"]++
	}
}

// Violations returns the number of unlisted violations so far.
func (r *Run) Violations() int { r.mu.Lock(); defer r.mu.Unlock(); return len(r.viol) }

// Floor declares that a monitor must have observed at least min events of a kind;
// otherwise the run is inconclusive (never folded into held or violated).
func (r *Run) Floor(name string, got int64, min int64) {
	if r.OnlyCase != "" {
		return
	}
	if got < min {
		r.mu.Lock()
		r.floors = append(r.floors, fmt.Sprintf("%s: observed %d < floor %d", name, got, min))
		r.mu.Unlock()
	}
}

// ViolationCount returns the number of (unlisted) violations recorded so far.
func (r *Run) ViolationCount() int {
	r.mu.Lock()
	defer r.mu.Unlock()
	return len(r.viol)
}

// Inconclusive marks the run inconclusive for another reason (watchdog, checker timeout).
func (r *Run) Inconclusive(reason string) {
	r.mu.Lock()
	r.floors = append(r.floors, reason)
	r.mu.Unlock()
}

// ChildReport is what a child process of a check hands back to its parent (VERIF_CHILD_REPORT=<path>).
type ChildReport struct {
	Violations []violation      `json:"violations"`
	KnownHits  map[string]int   `json:"known_hits"`
	Counters   map[string]int64 `json:"counters"`
	Evals      int64            `json:"evals"`
	Distinct   []string         `json:"distinct"`
	Floors     []string         `json:"floors"`
}

// MergeChild folds a child's report into this run; violation signatures get the given suffix.
func (r *Run) MergeChild(path, sigSuffix, counterPrefix string) error {
	b, err := os.ReadFile(path)
	if err != nil {
		return err
	}
	var cr ChildReport
	if err := json.Unmarshal(b, &cr); err != nil {
		return err
	}
	for _, v := range cr.Violations {
		r.Violation(v.Sig+sigSuffix, v.Case, v.Detail)
	}
	r.mu.Lock()
	for k, n := range cr.KnownHits {
		r.knownHits[k] += n
	}
	for k, n := range cr.Counters {
		r.counters[counterPrefix+k] += n
	}
	r.evals += cr.Evals
	for _, d := range cr.Distinct {
		r.distinct[counterPrefix+d] = struct{}{}
	}
	for _, f := range cr.Floors {
		r.floors = append(r.floors, counterPrefix+f)
	}
	r.mu.Unlock()
	return nil
}

// Finish writes evidence, prints the verdict lines and exits.
func (r *Run) Finish() {
	r.mu.Lock()
	defer r.mu.Unlock()
	if p := os.Getenv("VERIF_CHILD_REPORT"); p != "" {
		cr := ChildReport{Violations: r.viol, KnownHits: r.knownHits, Counters: r.counters, Evals: r.evals, Floors: r.floors}
		for k := range r.distinct {
			cr.Distinct = append(cr.Distinct, k)
		}
		b, _ := json.Marshal(cr)
		_ = os.WriteFile(p, b, 0o644)
		os.Exit(0)
	}
	root := OutRoot()
	cov := map[string]any{}
	for k, v := range r.extra {
		cov[k] = v
	}
	for k, v := range r.counters {
		cov[k] = v
	}
	for k, m := range r.sets {
		cov["distinct_"+k] = len(m)
		if len(m) <= 40 {
			keys := make([]string, 0, len(m))
			for s := range m {
				keys = append(keys, s)
			}
			sort.Strings(keys)
			cov["set_"+k] = keys
		}
	}
	cov["evaluations"] = r.evals
	cov["distinct_nontrivial"] = len(r.distinct)
	cov["rule"] = r.Rule
	if r.samples == nil {
		r.samples = []any{}
	}
	cov["samples"] = r.samples
	if r.exhaustive {
		cov["exhaustive"] = true
	}
	if len(r.knownHits) > 0 {
		cov["known_findings_reobserved"] = r.knownHits
	}
	if len(r.floors) > 0 {
		cov["inconclusive"] = r.floors
	}
	ev := map[string]any{
		"property_id": r.ID, "tier": r.Tier, "seed": int64(r.Seed & 0x7fffffffffffffff), "level": r.Level,
		"coverage": cov, "assumptions": r.Assumptions, "wall_s": time.Since(r.start).Seconds(),
		"violations": len(r.viol),
	}
	if r.Assumptions == nil {
		ev["assumptions"] = []string{}
	}
	if r.OnlyCase == "" {
		_ = os.MkdirAll(filepath.Join(root, "evidence"), 0o755)
		b, _ := json.MarshalIndent(ev, "", " ")
		tmp := filepath.Join(root, "evidence", r.ID+".json.tmp")
		if err := os.WriteFile(tmp, b, 0o644); err == nil {
			_ = os.Rename(tmp, filepath.Join(root, "evidence", r.ID+".json"))
		}
	}
	for _, k := range r.known {
		if n := r.knownHits[k.Signature]; n > 0 {
			fmt.Printf("KNOWN-FINDING: property=%s %s [signature=%s, re-observed %d times]\n", r.ID, k.What, k.Signature, n)
		}
	}
	code := 0
	if len(r.viol) > 0 {
		_ = os.MkdirAll(filepath.Join(root, "replays"), 0o755)
		seen := map[string]bool{}
		for i, v := range r.viol {
			p := filepath.Join(root, "replays", fmt.Sprintf("%s-%d-%d.json", r.ID, r.Seed, i))
			b, _ := json.MarshalIndent(map[string]any{"property": r.ID, "seed": r.Seed, "tier": r.Tier,
				"case": v.Case, "signature": v.Sig, "detail": v.Detail}, "", " ")
			_ = os.WriteFile(p, b, 0o644)
			if !seen[v.Sig] || i < 5 {
				fmt.Printf("VIOLATION property=%s replay=%s\n", r.ID, p)
				fmt.Printf("  signature: %s case: %s\n", v.Sig, v.Case)
			}
			seen[v.Sig] = true
		}
		code = 1
	} else if len(r.floors) > 0 {
		fmt.Printf("INCONCLUSIVE property=%s %s\n", r.ID, strings.Join(r.floors, "; "))
		code = 2
	} else {
		fmt.Printf("HELD property=%s tier=%s seed=%d evaluations=%d distinct_nontrivial=%d wall=%.1fs\n",
			r.ID, r.Tier, r.Seed, r.evals, len(r.distinct), time.Since(r.start).Seconds())
	}
	os.Stdout.Sync()
	os.Exit(code)
}

// J renders a value as compact JSON (for case labels / details).
func J(v any) string { b, _ := json.Marshal(v); return string(b) }
