package vh

import (
	"os"

	"cosmossdk.io/log"
	dbm "github.com/cosmos/cosmos-db"
	"github.com/cosmos/cosmos-sdk/baseapp"
	simtestutil "github.com/cosmos/cosmos-sdk/testutil/sims"

	chainapp "github.com/EscanBE/evermint/v12/app"
)

// NewBareApp constructs an application instance over db with node-local options and no
// observer (used by replay followers). home must be unique per instance.
func NewBareApp(db dbm.DB, home string, appOpts map[string]any, bopts ...func(*baseapp.BaseApp)) *chainapp.Evermint {
	InitSDK()
	appCreateMu.Lock()
	defer appCreateMu.Unlock()
	_ = os.MkdirAll(home, 0o755)
	opts := simtestutil.AppOptionsMap{}
	opts["home"] = home
	for k, v := range appOpts {
		opts[k] = v
	}
	all := append([]func(*baseapp.BaseApp){baseapp.SetChainID(ChainID)}, bopts...)
	return chainapp.NewEvermint(log.NewNopLogger(), db, nil, true, map[int64]bool{}, home, 0, chainapp.RegisterEncodingConfig(), opts, all...)
}

// NewMemDB returns a fresh in-memory database.
func NewMemDB() dbm.DB { return dbm.NewMemDB() }
