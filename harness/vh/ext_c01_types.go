package vh

import (
	"github.com/ethereum/go-ethereum/common"

	chainapp "github.com/EscanBE/evermint/v12/app"
	"github.com/EscanBE/evermint/v12/app/params"
)

// Aliases so that monitor packages need not import the repository's app packages for MutateGenesis.
type EncCfg = params.EncodingConfig
type GenesisMap = chainapp.GenesisState

// BumpPending records that a plan built outside PlanEth consumed the next nonce of a.
func (w *World) BumpPending(a common.Address) { w.pending[a]++ }
