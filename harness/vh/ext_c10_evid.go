package vh

// NontrivialN returns the number of distinct non-trivial case keys recorded so far
// (used by monitors that put a floor on the diversity they measured).
func (r *Run) NontrivialN() int {
	r.mu.Lock()
	defer r.mu.Unlock()
	return len(r.distinct)
}
