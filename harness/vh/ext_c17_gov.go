package vh

import (
	"time"

	sdkmath "cosmossdk.io/math"
	sdk "github.com/cosmos/cosmos-sdk/types"
	authtypes "github.com/cosmos/cosmos-sdk/x/auth/types"
	govtypes "github.com/cosmos/cosmos-sdk/x/gov/types"
	govv1 "github.com/cosmos/cosmos-sdk/x/gov/types/v1"
	"github.com/ethereum/go-ethereum/common"

	chainapp "github.com/EscanBE/evermint/v12/app"
	"github.com/EscanBE/evermint/v12/app/params"
)

// Governance plumbing shared by C17 / C18: the only way the real application changes module
// parameters (cpc whitelist / protocol version, evm and fee-market params) is a passed
// governance proposal whose messages are signed by the gov module account.

// GovAddr is the gov module account: the authority of every MsgUpdateParams.
var GovAddr = authtypes.NewModuleAddress(govtypes.ModuleName)

// GovMinDeposit is the deposit FastGov configures (in the native denom): 0.01 ether, more than the fee of
// one message transaction, so that the gov module account can pay a fee while a proposal is in its
// voting period (a user-signed transaction naming the gov account as signer then reaches signature
// verification instead of failing on the fee).
const GovMinDeposit = 10_000_000_000_000_000

// FastGov is a MutateGenesis step: voting period 2 s (expedited 1 s), minimum deposit
// GovMinDeposit of the native denom. With the default 5 s block step a proposal submitted and
// voted on in block N is tallied in the EndBlock of block N+1.
func FastGov(enc params.EncodingConfig, gs chainapp.GenesisState) {
	var gg govv1.GenesisState
	enc.Codec.MustUnmarshalJSON(gs[govtypes.ModuleName], &gg)
	vp, evp := 2*time.Second, 1*time.Second
	gg.Params.VotingPeriod = &vp
	gg.Params.ExpeditedVotingPeriod = &evp
	gg.Params.MinDeposit = sdk.NewCoins(sdk.NewCoin(Denom, sdkmath.NewInt(GovMinDeposit)))
	gg.Params.ExpeditedMinDeposit = sdk.NewCoins(sdk.NewCoin(Denom, sdkmath.NewInt(2*GovMinDeposit)))
	gs[govtypes.ModuleName] = enc.Codec.MustMarshalJSON(&gg)
}

// NextProposalID is the id the next submitted proposal receives (committed state).
func (c *Chain) NextProposalID() uint64 {
	id, err := c.App.GovKeeper.ProposalID.Peek(c.QueryCtx())
	if err != nil {
		return 1
	}
	return id
}

// Seqs hands out account sequences for several transactions of one sender within the block
// being composed (committed sequence + number already handed out).
type Seqs struct {
	c    *Chain
	pend map[common.Address]uint64
}

func (c *Chain) NewSeqs() *Seqs { return &Seqs{c: c, pend: map[common.Address]uint64{}} }

// Next returns the sequence to use and reserves it.
func (s *Seqs) Next(a common.Address) uint64 {
	n := s.c.Nonce(a) + s.pend[a]
	s.pend[a]++
	return n
}

// Peek returns the sequence Next would return without reserving it.
func (s *Seqs) Peek(a common.Address) uint64 { return s.c.Nonce(a) + s.pend[a] }

// Used tells whether a sequence of this sender was already handed out for this block.
func (s *Seqs) Used(a common.Address) bool { return s.pend[a] > 0 }

// Reset forgets the reservations (call after the block was executed).
func (s *Seqs) Reset() { s.pend = map[common.Address]uint64{} }

// GovProposalTxs builds the transactions of one governance round for a single block: the
// MsgSubmitProposal (deposit = minimum deposit, so the proposal enters the voting period at once)
// signed by proposer, followed by a yes vote of every genesis validator's operator account.
// It returns the transactions and the proposal id they refer to.
func (c *Chain) GovProposalTxs(proposer *Acct, msgs []sdk.Msg, seqs *Seqs, title string) ([][]byte, uint64, error) {
	id := c.NextProposalID()
	sp, err := govv1.NewMsgSubmitProposal(msgs, sdk.NewCoins(sdk.NewCoin(Denom, sdkmath.NewInt(GovMinDeposit))),
		proposer.Bech32(), "", title, "verif", false)
	if err != nil {
		return nil, 0, err
	}
	seq := seqs.Next(proposer.Addr)
	txs := [][]byte{c.CosmosTx(proposer, []sdk.Msg{sp}, &CosmosOpts{Gas: 3_000_000, Seq: &seq})}
	for _, v := range c.Vals {
		vs := seqs.Next(v.Acct.Addr)
		txs = append(txs, c.CosmosTx(v.Acct, []sdk.Msg{govv1.NewMsgVote(v.Acct.Acc(), id, govv1.OptionYes, "")}, &CosmosOpts{Gas: 400_000, Seq: &vs}))
	}
	return txs, id, nil
}

// ProposalStatuses returns id -> status of every stored proposal (through ctx).
func (c *Chain) ProposalStatuses(ctx sdk.Context) map[uint64]int32 {
	out := map[uint64]int32{}
	_ = c.App.GovKeeper.Proposals.Walk(ctx, nil, func(id uint64, p govv1.Proposal) (bool, error) {
		out[id] = int32(p.Status)
		return false, nil
	})
	return out
}
