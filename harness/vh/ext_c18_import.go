package vh

import (
	"encoding/json"
	"fmt"
	"runtime/debug"
	"time"

	abci "github.com/cometbft/cometbft/abci/types"
	cmttypes "github.com/cometbft/cometbft/types"
	servertypes "github.com/cosmos/cosmos-sdk/server/types"
	"github.com/cosmos/cosmos-sdk/types/module"
	genutiltypes "github.com/cosmos/cosmos-sdk/x/genutil/types"

	chainapp "github.com/EscanBE/evermint/v12/app"
)

// ImportChain builds a FRESH application (empty database, new home directory) and initialises
// it from an export exactly the way `evmd export` -> genesis.json -> `evmd start` does:
// the export command writes app_state, validators, initial_height = exported height and the
// consensus params into the genesis document (chain id and genesis time are kept), and on start
// CometBFT's handshaker sends RequestInitChain{Time: genesis time, ChainId, InitialHeight,
// ConsensusParams, Validators (as validator updates of the genesis validator set), AppStateBytes}.
// The first block (height = exported height) is then executed empty at prevTime + block step.
// base must be the Config of the exporting chain (same Seed / NumVals => same validator keys).
// A panic or error of InitChain / the first block is returned as err (with the stack in detail).
func ImportChain(base Config, exp servertypes.ExportedApp, prevTime time.Time) (c *Chain, err error, detail string) {
	cfg := base
	cfg.DB = nil
	cfg.Home = ""
	cfg.NoFirstBlock = false
	c = PrepareChain(cfg)
	vals := make([]*cmttypes.Validator, len(exp.Validators))
	for i, v := range exp.Validators {
		vals[i] = cmttypes.NewValidator(v.PubKey, v.Power)
	}
	// the export command stores genutiltypes.NewConsensusGenesis(exported params, validators) in the
	// genesis document (block / evidence / validator groups only); CometBFT sends its ToProto() form
	cp := genutiltypes.NewConsensusGenesis(exp.ConsensusParams, exp.Validators).Params.ToProto()
	c.Genesis = &abci.RequestInitChain{ChainId: ChainID, Time: c.Cfg.GenesisTime, InitialHeight: exp.Height,
		ConsensusParams: &cp, Validators: cmttypes.TM2PB.ValidatorUpdates(cmttypes.NewValidatorSet(vals)), AppStateBytes: exp.AppState}
	c.Height = exp.Height - 1
	c.Time = prevTime
	defer func() {
		if p := recover(); p != nil {
			err = fmt.Errorf("%v", p)
			detail = string(debug.Stack())
		}
	}()
	c.Init()
	return c, nil, ""
}

// ValidateExportedGenesis runs the named modules' ValidateGenesis over an exported app state
// (what `evmd validate-genesis` does with the exported file, restricted to those modules).
// It returns the first failing module and its error.
func (c *Chain) ValidateExportedGenesis(appState []byte, modules ...string) (failed string, err error) {
	defer func() {
		if p := recover(); p != nil {
			err = fmt.Errorf("panic: %v", p)
		}
	}()
	var gs map[string]json.RawMessage
	if e := json.Unmarshal(appState, &gs); e != nil {
		return "", e
	}
	for _, m := range modules {
		failed = m
		b, ok := chainapp.ModuleBasics[m]
		if !ok {
			return m, fmt.Errorf("unknown module %s", m)
		}
		hg, ok := b.(module.HasGenesisBasics)
		if !ok {
			continue
		}
		if e := hg.ValidateGenesis(c.App.AppCodec(), c.Enc.TxConfig, gs[m]); e != nil {
			return m, e
		}
	}
	return "", nil
}
