package vh

import (
	sdk "github.com/cosmos/cosmos-sdk/types"
)

// Snap is what the tx-boundary observer captured at one boundary: a full dump of all KV
// stores plus whatever semantic view the monitor computed on the spot.
type Snap struct {
	Dump Dump
	View any
}

// ObservedBlock couples a block result with per-transaction before/after snapshots.
type ObservedBlock struct {
	*BlockResult
	// Pre[i] / Post[i]: state before / after real tx i. Reached[i] is false when the
	// transaction never reached the ante handler (undecodable or dropped for block gas);
	// its Pre and Post are then the same (next available) snapshot.
	Pre, Post []*Snap
	Reached   []bool
	// PostIsEndBlock[i]: Post[i] was taken after EndBlock (no later boundary in the block).
	PostIsEndBlock []bool
	Final          *Snap // state after EndBlock, before Commit
}

// ViewFn computes a semantic view inside the observer (never from a saved context).
type ViewFn func(ctx sdk.Context) any

// RunObserved executes one block and returns per-transaction snapshots.
// withDump selects whether full store dumps are taken at every boundary.
func (c *Chain) RunObserved(txs [][]byte, opt *BlockOpt, view ViewFn, withDump bool) *ObservedBlock {
	type boundary struct {
		idx  int // index in block tx list (incl. sentinel)
		snap *Snap
	}
	var bs []boundary
	next := 0
	all := len(txs)
	obs := func(o *TxObs) {
		if o.Mode != ModeDeliver {
			return
		}
		raw := string(o.Ctx.TxBytes())
		idx := -1
		if o.Sentinel {
			idx = all
		} else {
			for j := next; j < all; j++ {
				if string(txs[j]) == raw {
					idx = j
					break
				}
			}
		}
		if idx < 0 {
			return
		}
		next = idx + 1
		s := &Snap{}
		if withDump {
			s.Dump = c.DumpStores(o.Ctx)
		}
		if view != nil {
			s.View = view(o.Ctx)
		}
		bs = append(bs, boundary{idx: idx, snap: s})
	}
	saved := c.observers
	c.observers = append(append([]func(*TxObs){}, saved...), obs)
	o2 := BlockOpt{}
	if opt != nil {
		o2 = *opt
	}
	o2.NoCommit = true
	br := c.NextBlock(txs, &o2)
	c.observers = saved
	ob := &ObservedBlock{BlockResult: br, Pre: make([]*Snap, all), Post: make([]*Snap, all),
		Reached: make([]bool, all), PostIsEndBlock: make([]bool, all)}
	if br.Err == nil {
		fctx := c.App.GetContextForFinalizeBlock(nil)
		ob.Final = &Snap{}
		if withDump {
			ob.Final.Dump = c.DumpStores(fctx)
		}
		if view != nil {
			ob.Final.View = view(fctx)
		}
		if opt != nil && opt.BeforeCommit != nil {
			opt.BeforeCommit()
		}
		if opt == nil || !opt.NoCommit {
			if _, err := c.App.Commit(); err != nil {
				br.Err = err
			}
		}
	}
	// assign snapshots
	at := map[int]*Snap{}
	for _, b := range bs {
		at[b.idx] = b.snap
	}
	// nextSnap(i) = first boundary with idx >= i, else Final
	nextSnap := func(i int) (*Snap, bool) {
		for j := i; j <= all; j++ {
			if s, ok := at[j]; ok {
				return s, false
			}
		}
		return ob.Final, true
	}
	for i := 0; i < all; i++ {
		if s, ok := at[i]; ok {
			ob.Reached[i] = true
			ob.Pre[i] = s
		} else {
			ob.Pre[i], _ = nextSnap(i)
		}
		ob.Post[i], ob.PostIsEndBlock[i] = nextSnap(i + 1)
		if !ob.Reached[i] {
			ob.Post[i] = ob.Pre[i]
			ob.PostIsEndBlock[i] = false
		}
	}
	return ob
}
