package vh

import (
	"fmt"
	"math/big"

	"github.com/ethereum/go-ethereum/common"
	"github.com/ethereum/go-ethereum/core/vm"
	"github.com/ethereum/go-ethereum/crypto"
)

// Call-tree puppets (E3b): for an abstract tree one contract per node is emitted and
// deployed by ordinary create transactions. The harness knows the abstract tree, so a
// reference fold with snapshot semantics can predict which leaves take effect.

// Step is one action of a puppet node, executed in order.
type Step struct {
	// exactly one of the following is set
	Child   *Node     // call a child puppet
	Ext     *ExtCall  // call an external address (precompile, EOA, ...) with fixed call data
	SStore  *[2]uint64 // slot, value
	Log     *uint64    // LOG1 with this data word and topic 0x7e57
	Destroy *common.Address
}

// ExtCall is a call to a fixed address with fixed data.
type ExtCall struct {
	Kind   CallKind
	To     common.Address
	Value  *big.Int
	Gas    uint64 // 0 = all remaining
	Data   []byte
	OnFail string // "ignore" (default) | "propagate" (revert this frame when the call fails)
	// StoreOK: when >= 0 the success flag is written to this storage slot (+1, so 1=failed, 2=ok)
	StoreOK int
	// ReturnOut: when true the callee's return data is returned (RETURN) by this node right after the call
	ReturnOut bool
}

// Node is one puppet contract.
type Node struct {
	// how the parent calls this node (ignored for the root, which the transaction calls)
	Kind   CallKind
	Value  *big.Int
	Gas    uint64
	OnFail string // parent's policy when this node fails: "ignore" | "propagate"
	Steps  []Step
	End    string // "stop" (default) | "revert" | "invalid"
	Addr   common.Address // filled by Deploy
	Name   string
}

// Code emits the runtime code of n (children must already have addresses).
func (n *Node) Code() []byte {
	a := NewAsm()
	lbl := 0
	nl := func() string { lbl++; return fmt.Sprintf("p%d", lbl) }
	failPolicy := func(onFail string) {
		if onFail == "propagate" {
			l := nl()
			a.JumpI(l).PushU(0).PushU(0).Op(vm.REVERT).Label(l)
		} else {
			a.Op(vm.POP)
		}
	}
	for _, s := range n.Steps {
		switch {
		case s.Child != nil:
			c := s.Child
			a.CallMem(c.Kind, c.Addr, c.Value, c.Gas, 0, 0, 0, 0)
			failPolicy(c.OnFail)
		case s.Ext != nil:
			e := s.Ext
			a.MStoreBytes(0, e.Data)
			retOff := (len(e.Data) + 31) / 32 * 32
			a.CallMem(e.Kind, e.To, e.Value, e.Gas, 0, len(e.Data), retOff, 0)
			if e.StoreOK > 0 || (e.StoreOK == 0 && false) {
				a.Op(vm.DUP1).PushU(1).Op(vm.ADD).PushU(uint64(e.StoreOK)).Op(vm.SSTORE)
			}
			if e.ReturnOut {
				l := nl()
				a.JumpI(l)
				a.Op(vm.RETURNDATASIZE).PushU(0).PushU(0).Op(vm.RETURNDATACOPY).Op(vm.RETURNDATASIZE).PushU(0).Op(vm.REVERT)
				a.Label(l)
				a.Op(vm.RETURNDATASIZE).PushU(0).PushU(0).Op(vm.RETURNDATACOPY).Op(vm.RETURNDATASIZE).PushU(0).Op(vm.RETURN)
			} else {
				failPolicy(e.OnFail)
			}
		case s.SStore != nil:
			a.SStore(s.SStore[0], s.SStore[1])
		case s.Log != nil:
			a.Log(*s.Log, 0x7e57)
		case s.Destroy != nil:
			a.PushAddr(*s.Destroy).Op(vm.SELFDESTRUCT)
		}
	}
	switch n.End {
	case "revert":
		a.PushU(0).PushU(0).Op(vm.REVERT)
	case "invalid":
		a.Op(vm.INVALID)
	default:
		a.Op(vm.STOP)
	}
	return a.Bytes()
}

// Walk visits the tree post-order.
func (n *Node) Walk(f func(*Node)) {
	for _, s := range n.Steps {
		if s.Child != nil {
			s.Child.Walk(f)
		}
	}
	f(n)
}

// DeployTree deploys every node of the tree (children first) with create transactions from
// `from`, several per block, and fills Node.Addr. It returns an error text when a deployment failed.
func (c *Chain) DeployTree(from *Acct, root *Node) error {
	var order []*Node
	root.Walk(func(n *Node) { order = append(order, n) })
	// children before parents is guaranteed by post-order; a parent's code embeds child addresses,
	// which are predictable from (from, nonce), so the whole tree fits in one block.
	nonce := c.Nonce(from.Addr)
	var txs [][]byte
	price := new(big.Int).Mul(c.BaseFee(), big.NewInt(3))
	if price.Sign() == 0 {
		price = big.NewInt(1)
	}
	for i, n := range order {
		n.Addr = crypto.CreateAddress(from.Addr, nonce+uint64(i))
	}
	for i, n := range order {
		bz, _ := c.EthTx(from, LegacyTx(nonce+uint64(i), nil, nil, 2_000_000, price, Deployer(n.Code())))
		txs = append(txs, bz)
	}
	br := c.NextBlock(txs, nil)
	if br.Err != nil {
		return br.Err
	}
	for i, r := range br.TxResults() {
		if r.Code != 0 {
			return fmt.Errorf("deploy node %d failed: code %d %s", i, r.Code, r.Log)
		}
	}
	return nil
}
