package vh

import (
	"sort"
	"strings"
)

// RaceReport is one report of the Go race detector, classified by WHO performs the racing accesses.
//
// Class: "evermint"   - the access site of at least one of the two racing accesses is code of the
//                       repository (the innermost frame that is neither Go runtime nor standard library
//                       belongs to github.com/EscanBE/evermint, hook package excluded): the repository's
//                       own code touches the shared memory (its variables, slices, maps, or standard-library
//                       objects it owns such as big.Int / maps / slices);
//                       Frames of plain value libraries (golang.org/x/..., uint256) are looked through like the
//                       standard library: a caser, a big number or a hash state is owned by whoever holds it;
//        "harness"    - same, for code of this harness (a monitor bug, reported as inconclusive);
//        "dependency" - both access sites are inside a dependency (cosmos-sdk store, iavl, cometbft, goja ...)
//                       that owns the memory; repository frames appear only further up as callers.
type RaceReport struct {
	Text  string
	Key   string // de-duplication key: the two access-site functions, sorted
	Class string
}

const evermintModule = "github.com/EscanBE/evermint/"

func isStdOrRuntime(fn string) bool {
	// function names look like "pkg/path.Func" or "pkg/path.(*T).M"; standard-library import paths have no dot
	// in their first path element
	first := fn
	if i := strings.IndexByte(first, '/'); i >= 0 {
		first = first[:i]
	} else if i := strings.IndexByte(first, '.'); i >= 0 {
		first = first[:i]
		return true // "runtime.x", "sync.x", "bytes.x": single-element path = standard library
	}
	if !strings.Contains(first, ".") {
		return true
	}
	// plain value libraries: their objects are owned by the calling code, like standard-library objects
	return strings.HasPrefix(fn, "golang.org/x/") || strings.HasPrefix(fn, "github.com/holiman/uint256")
}

// ParseRaceLog splits GORACE log text into classified reports.
func ParseRaceLog(txt string) []RaceReport {
	var out []RaceReport
	for _, blk := range strings.Split(txt, "==================") {
		if !strings.Contains(blk, "WARNING: DATA RACE") {
			continue
		}
		rep := RaceReport{Text: strings.TrimSpace(blk), Class: "dependency"}
		var keys []string
		ever, harn := false, false
		for _, sec := range strings.Split(strings.TrimSpace(blk), "\n\n") {
			lines := strings.Split(sec, "\n")
			head := ""
			for _, l := range lines {
				if strings.TrimSpace(l) != "" && !strings.Contains(l, "WARNING: DATA RACE") {
					head = l
					break
				}
			}
			if !(strings.Contains(head, " at 0x") && strings.Contains(head, " by ")) {
				continue // goroutine-creation stacks etc.
			}
			site := ""
			for _, l := range lines {
				if !strings.HasPrefix(l, "  ") || strings.HasPrefix(l, "   ") {
					continue
				}
				fn := strings.TrimSpace(l)
				if i := strings.LastIndex(fn, "("); i > 0 && strings.HasSuffix(fn, ")") {
					fn = fn[:i]
				}
				if isStdOrRuntime(fn) || strings.Contains(fn, evermintModule+"v12/verifhook") {
					continue
				}
				site = fn
				break
			}
			switch {
			case strings.HasPrefix(site, evermintModule):
				ever = true
				if i := strings.Index(site, "/v12/"); i >= 0 {
					site = site[i+5:]
				}
			case strings.HasPrefix(site, "verifharness/"):
				harn = true
			}
			if i := strings.Index(site, ".func"); i > 0 {
				site = site[:i]
			}
			if site == "" {
				site = "?"
			}
			keys = append(keys, site)
		}
		switch {
		case ever:
			rep.Class = "evermint"
		case harn:
			rep.Class = "harness"
		}
		sort.Strings(keys)
		rep.Key = strings.Join(keys, "|")
		out = append(out, rep)
	}
	return out
}
