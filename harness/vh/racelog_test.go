package vh

import "testing"

const sampleRace = `==================
WARNING: DATA RACE
Read at 0x00c0001a4078 by goroutine 8:
  github.com/EscanBE/evermint/v12/indexer.(*KVIndexer).getByTxHash()
      /repo/indexer/kv_indexer.go:10 +0xa4
  github.com/EscanBE/evermint/v12/indexer.(*KVIndexer).GetByTxHash()
      /repo/indexer/kv_indexer.go:17 +0x12
  verifharness/props/c14.linHistory.func2()
      /verif/harness/props/c14/lin.go:1 +0x1

Previous write at 0x00c0001a4078 by goroutine 7:
  github.com/cosmos/cosmos-db.(*MemDB).set()
      /x/memdb.go:10 +0xb6
  github.com/EscanBE/evermint/v12/indexer.(*KVIndexer).IndexBlock()
      /repo/indexer/kv_indexer.go:17 +0x12

Goroutine 8 (running) created at:
  main.main()
      /verif/x/main.go:17 +0x78
==================
==================
WARNING: DATA RACE
Write at 0x00c0001a4078 by goroutine 8:
  github.com/foo/bar.(*T).m()
      /x/y.go:10 +0xa4

Previous write at 0x00c0001a4078 by goroutine 7:
  github.com/foo/bar.(*T).n()
      /x/y.go:10 +0xb6
==================
Found 2 data race(s)
`

func TestParseRaceLog(t *testing.T) {
	reps := ParseRaceLog(sampleRace)
	if len(reps) != 2 {
		t.Fatalf("want 2 reports, got %d", len(reps))
	}
	// first report: one access site is repository code (getByTxHash), the other inside cosmos-db
	if reps[0].Class != "evermint" || reps[0].Key != "github.com/cosmos/cosmos-db.(*MemDB).set|indexer.(*KVIndexer).getByTxHash" {
		t.Fatalf("bad first report: %s %q", reps[0].Class, reps[0].Key)
	}
	if reps[1].Class != "dependency" || reps[1].Key != "github.com/foo/bar.(*T).m|github.com/foo/bar.(*T).n" {
		t.Fatalf("bad second report: %s %q", reps[1].Class, reps[1].Key)
	}
	std := "==================\nWARNING: DATA RACE\nWrite at 0x1 by goroutine 8:\n  runtime.growslice()\n      /x.go:1 +0x1\n  github.com/EscanBE/evermint/v12/x/evm/keeper.(*StateTransition).TransitionDb()\n      /repo/x.go:1 +0x1\n\nPrevious read at 0x1 by goroutine 7:\n  math/big.(*Int).Add()\n      /x.go:1 +0x1\n  github.com/cosmos/iavl.(*nodeDB).x()\n      /y.go:1 +0x1\n=================="
	r := ParseRaceLog(std)
	if len(r) != 1 || r[0].Class != "evermint" || r[0].Key != "github.com/cosmos/iavl.(*nodeDB).x|x/evm/keeper.(*StateTransition).TransitionDb" {
		t.Fatalf("bad std report: %+v", r)
	}
}
