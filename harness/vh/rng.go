// Package vh is the shared engine of the evermint runtime-monitoring harness:
// deterministic PRNG, direct ABCI chain driver with a tx-boundary observer,
// genesis and transaction builders, an EVM assembler, store dumps/diffs and the
// evidence / violation / known-finding plumbing used by every property monitor.
package vh

import (
	"encoding/binary"
	"math/big"
)

// RNG is a splitmix64 stream. Every random choice in the harness comes from one of
// these, derived from (VERIF_SEED, property id, case index); never from the wall clock.
type RNG struct{ s uint64 }

func NewRNG(seed uint64) *RNG { return &RNG{s: seed} }

// Derive returns an independent stream for (parent seed, label, index).
func Derive(seed uint64, label string, idx uint64) *RNG {
	h := seed ^ 0x9e3779b97f4a7c15
	for _, c := range []byte(label) {
		h = (h ^ uint64(c)) * 0x100000001b3
	}
	r := &RNG{s: h + idx*0xbf58476d1ce4e5b9}
	r.U64()
	r.U64()
	return r
}

func (r *RNG) U64() uint64 {
	r.s += 0x9e3779b97f4a7c15
	z := r.s
	z = (z ^ (z >> 30)) * 0xbf58476d1ce4e5b9
	z = (z ^ (z >> 27)) * 0x94d049bb133111eb
	return z ^ (z >> 31)
}

// Intn returns a value in [0,n). n must be > 0.
func (r *RNG) Intn(n int) int { return int(r.U64() % uint64(n)) }

// Range returns a value in [lo,hi] inclusive.
func (r *RNG) Range(lo, hi int) int { return lo + r.Intn(hi-lo+1) }

func (r *RNG) Bool() bool { return r.U64()&1 == 1 }

// Chance is true with probability num/den.
func (r *RNG) Chance(num, den int) bool { return r.Intn(den) < num }

func (r *RNG) Bytes(n int) []byte {
	b := make([]byte, n)
	for i := 0; i < n; i += 8 {
		var t [8]byte
		binary.LittleEndian.PutUint64(t[:], r.U64())
		copy(b[i:], t[:])
	}
	return b
}

// BigBits returns a uniformly random non-negative integer below 2^bits.
func (r *RNG) BigBits(bits int) *big.Int {
	if bits <= 0 {
		return new(big.Int)
	}
	b := r.Bytes((bits + 7) / 8)
	v := new(big.Int).SetBytes(b)
	return v.And(v, new(big.Int).Sub(new(big.Int).Lsh(big.NewInt(1), uint(bits)), big.NewInt(1)))
}

// BigBelow returns a uniformly random integer in [0,n) (n > 0).
func (r *RNG) BigBelow(n *big.Int) *big.Int {
	if n.Sign() <= 0 {
		return new(big.Int)
	}
	v := r.BigBits(n.BitLen() + 64)
	return v.Mod(v, n)
}

// Pick returns one element of xs.
func Pick[T any](r *RNG, xs []T) T { return xs[r.Intn(len(xs))] }

// Shuffle permutes xs in place.
func Shuffle[T any](r *RNG, xs []T) {
	for i := len(xs) - 1; i > 0; i-- {
		j := r.Intn(i + 1)
		xs[i], xs[j] = xs[j], xs[i]
	}
}
