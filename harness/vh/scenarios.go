package vh

import (
	"math/big"

	"github.com/ethereum/go-ethereum/common"
	"github.com/ethereum/go-ethereum/core/vm"
	"github.com/ethereum/go-ethereum/crypto"
)

// RepeatDestroy is a two-contract scenario for multi-step intra-transaction histories around SELFDESTRUCT:
// a vault (value > 0: keep the coins; call data present: forward the whole balance to the beneficiary; otherwise
// SELFDESTRUCT to the beneficiary) and an orchestrator that, in ONE transaction, pays the vault, destroys it, pays it
// again, destroys it again and finally asks it to forward whatever it still holds. The beneficiary is an address
// without code, so no re-entrancy is involved. Conservation: the beneficiary gains exactly what the orchestrator paid in.
type RepeatDestroy struct {
	Vault, Orch, Beneficiary common.Address
	Deploy                   []*TxPlan // two create transactions (vault, orchestrator) of owner
	PaidIn                   *big.Int  // value the firing transaction must carry (2 x V)
}

// PlanRepeatDestroy plans the two deployments (same block, consecutive nonces of owner).
func (w *World) PlanRepeatDestroy(owner *Acct, beneficiary common.Address, v *big.Int) *RepeatDestroy {
	return w.planDestroyPair(owner, beneficiary, v, func(vault common.Address) []ExtCall {
		return []ExtCall{
			{Kind: CALL, To: vault, Value: v},        // pay
			{Kind: CALL, To: vault},                  // destroy #1
			{Kind: CALL, To: vault, Value: v},        // pay again (account is marked self-destructed)
			{Kind: CALL, To: vault},                  // destroy #2: balance must be cleared again
			{Kind: CALL, To: vault, Data: []byte{1}}, // forward what is left (must be nothing)
		}
	})
}

// PlanDestroyThenPay is the same pair with a shorter script: pay the vault, destroy it, pay it AGAIN and stop. The
// vault is deleted at the end of the transaction together with what it received after its SELFDESTRUCT (go-ethereum
// semantics): nothing may stay behind at its address. Fire() runs it (value = 2 x v).
func (w *World) PlanDestroyThenPay(owner *Acct, beneficiary common.Address, v *big.Int) *RepeatDestroy {
	return w.planDestroyPair(owner, beneficiary, v, func(vault common.Address) []ExtCall {
		return []ExtCall{
			{Kind: CALL, To: vault, Value: v}, // pay
			{Kind: CALL, To: vault},           // destroy
			{Kind: CALL, To: vault, Value: v}, // pay again: the account is marked self-destructed and still receives
		}
	})
}

func (w *World) planDestroyPair(owner *Acct, beneficiary common.Address, v *big.Int, script func(vault common.Address) []ExtCall) *RepeatDestroy {
	nonce := w.NextNonce(owner.Addr)
	vault := NewAsm().Op(vm.CALLVALUE).JumpI("keep").Op(vm.CALLDATASIZE).JumpI("fwd").PushAddr(beneficiary).Op(vm.SELFDESTRUCT).
		Label("keep").Op(vm.STOP).
		Label("fwd").PushU(0).PushU(0).PushU(0).PushU(0).Op(vm.SELFBALANCE).PushAddr(beneficiary).Op(vm.GAS).Op(vm.CALL).Op(vm.STOP).Bytes()
	sc := &RepeatDestroy{Beneficiary: beneficiary, PaidIn: new(big.Int).Mul(v, big.NewInt(2))}
	sc.Vault = crypto.CreateAddress(owner.Addr, nonce)
	sc.Orch = crypto.CreateAddress(owner.Addr, nonce+1)
	orch := &Node{}
	for _, st := range script(sc.Vault) {
		st := st
		st.StoreOK = -1
		orch.Steps = append(orch.Steps, Step{Ext: &st})
	}
	sc.Deploy = []*TxPlan{
		w.PlanEth(owner, nil, nil, 400_000, Deployer(vault), "ok", nil),
		w.PlanEth(owner, nil, nil, 1_200_000, Deployer(orch.Code()), "ok", nil),
	}
	return sc
}

// Fire plans the transaction that runs the scenario.
func (sc *RepeatDestroy) Fire(w *World, sender *Acct) *TxPlan {
	to := sc.Orch
	return w.PlanEth(sender, &to, sc.PaidIn, 1_500_000, nil, "ok", nil)
}

// RevertedDestroy: a vault (as in RepeatDestroy, endowed with v at creation), a middle contract that calls the vault
// without value or data - the vault self-destructs toward the beneficiary - and then REVERTs, and a top contract that
// first pays the vault one unit (so that the vault is touched OUTSIDE the frame that will be rolled back), then calls the
// middle one and ignores its failure. The self-destruct happened in a frame that was rolled back: after the transaction
// the vault still exists, with its code and v + 1, and the beneficiary got nothing.
type RevertedDestroy struct {
	Vault, Mid, Top, Beneficiary common.Address
	Deploy                       []*TxPlan // three create transactions of owner (vault, middle, top)
}

func (w *World) PlanRevertedDestroy(owner *Acct, beneficiary common.Address, v *big.Int) *RevertedDestroy {
	nonce := w.NextNonce(owner.Addr)
	vault := NewAsm().Op(vm.CALLVALUE).JumpI("keep").PushAddr(beneficiary).Op(vm.SELFDESTRUCT).Label("keep").Op(vm.STOP).Bytes()
	sc := &RevertedDestroy{Beneficiary: beneficiary, Vault: crypto.CreateAddress(owner.Addr, nonce), Mid: crypto.CreateAddress(owner.Addr, nonce+1), Top: crypto.CreateAddress(owner.Addr, nonce+2)}
	mid := &Node{Addr: sc.Mid, Kind: CALL, OnFail: "ignore", End: "revert", Steps: []Step{{Ext: &ExtCall{Kind: CALL, To: sc.Vault, StoreOK: -1}}}}
	top := &Node{Addr: sc.Top, End: "stop", Steps: []Step{{Ext: &ExtCall{Kind: CALL, To: sc.Vault, Value: big.NewInt(1), StoreOK: -1}}, {Child: mid}}}
	sc.Deploy = []*TxPlan{
		w.PlanEth(owner, nil, v, 400_000, Deployer(vault), "ok", nil),
		w.PlanEth(owner, nil, nil, 1_200_000, Deployer(mid.Code()), "ok", nil),
		w.PlanEth(owner, nil, nil, 1_200_000, Deployer(top.Code()), "ok", nil),
	}
	return sc
}

// Fire plans the transaction that runs the scenario (a call of the top contract carrying the one unit it passes on).
func (sc *RevertedDestroy) Fire(w *World, sender *Acct) *TxPlan {
	to := sc.Top
	return w.PlanEth(sender, &to, big.NewInt(1), 1_500_000, nil, "ok", nil)
}
