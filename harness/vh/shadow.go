package vh

import (
	"fmt"
	"math/big"
	"sort"

	"github.com/ethereum/go-ethereum/common"
	"github.com/ethereum/go-ethereum/core"
	"github.com/ethereum/go-ethereum/core/rawdb"
	"github.com/ethereum/go-ethereum/core/state"
	ethtypes "github.com/ethereum/go-ethereum/core/types"
	"github.com/ethereum/go-ethereum/core/vm"
	"github.com/ethereum/go-ethereum/params"
	"github.com/ethereum/go-ethereum/trie"
)

// Shadow is the reference world of C02: go-ethereum's own state database and its own
// state transition (core.ApplyMessage), kept in lock-step with an EVM-only micro-world.
type Shadow struct {
	db      state.Database
	root    common.Hash
	Cfg     *params.ChainConfig
	Hashes  map[uint64]common.Hash // block number -> header hash (as evermint stores them)
	Tracked map[common.Address]struct{}
}

func NewShadow(cfg *params.ChainConfig) *Shadow {
	s := &Shadow{db: state.NewDatabaseWithConfig(rawdb.NewMemoryDatabase(), &trie.Config{Preimages: true}), Cfg: cfg, Hashes: map[uint64]common.Hash{},
		Tracked: map[common.Address]struct{}{}}
	sdb, err := state.New(common.Hash{}, s.db, nil)
	if err != nil {
		panic(err)
	}
	s.root, _ = sdb.Commit(false)
	return s
}

func (s *Shadow) open() *state.StateDB {
	sdb, err := state.New(s.root, s.db, nil)
	if err != nil {
		panic(err)
	}
	return sdb
}

// Seed sets an account's initial balance and nonce (genesis), creating it even when empty.
func (s *Shadow) Seed(a common.Address, balance *big.Int, nonce uint64) {
	sdb := s.open()
	sdb.CreateAccount(a)
	sdb.SetBalance(a, balance)
	sdb.SetNonce(a, nonce)
	s.root, _ = sdb.Commit(false)
	s.Tracked[a] = struct{}{}
}

// Mutate applies an out-of-band change (mirroring a Cosmos-side effect on a tracked account).
func (s *Shadow) Mutate(f func(*state.StateDB)) {
	sdb := s.open()
	f(sdb)
	s.root, _ = sdb.Commit(false)
}

// warmDB adds the documented extra warm addresses right after PrepareAccessList.
type warmDB struct {
	*state.StateDB
	extra []common.Address
}

func (w *warmDB) PrepareAccessList(sender common.Address, dst *common.Address, precompiles []common.Address, list ethtypes.AccessList) {
	w.StateDB.PrepareAccessList(sender, dst, precompiles, list)
	for _, a := range w.extra {
		w.StateDB.AddAddressToAccessList(a)
	}
}

// ShadowBlock is the block context the reference runs under.
type ShadowBlock struct {
	Number   int64
	Time     int64
	GasLimit uint64
	BaseFee  *big.Int
	Coinbase common.Address
	Hash     common.Hash
}

// ShadowResult of one reference execution.
type ShadowResult struct {
	ConsensusErr string // non-empty: go-ethereum refused the message at consensus level
	VMErr        string
	Ret          []byte
	GasUsed      uint64
	Logs         []*ethtypes.Log
	Panic        string
	Destroyed    *big.Int // native coins the reference destroyed (self-destruct residue, burnt fees are added back)
}

// Apply runs msg through go-ethereum's state transition and commits. extraWarm are the
// addresses evermint documents as additionally warm (coinbase, registered custom precompiles).
// The coinbase tip is taken back afterwards and the base-fee burn is not applied to the
// comparison (documented difference: fees go to the fee collector on evermint).
func (s *Shadow) Apply(tx *ethtypes.Transaction, blk ShadowBlock, txIndex int, extraWarm []common.Address) (res *ShadowResult) {
	res = &ShadowResult{}
	signer := ethtypes.MakeSigner(s.Cfg, big.NewInt(blk.Number))
	msg, err := tx.AsMessage(signer, blk.BaseFee)
	if err != nil {
		res.ConsensusErr = "as-message: " + err.Error()
		return
	}
	sdb := s.open()
	sdb.Prepare(tx.Hash(), txIndex)
	bctx := vm.BlockContext{
		CanTransfer: core.CanTransfer, Transfer: core.Transfer,
		GetHash: func(n uint64) common.Hash { return s.Hashes[n] },
		Coinbase: blk.Coinbase, GasLimit: blk.GasLimit, BlockNumber: big.NewInt(blk.Number),
		Time: big.NewInt(blk.Time), Difficulty: big.NewInt(0), BaseFee: blk.BaseFee, Random: nil,
	}
	cbBefore := new(big.Int).Set(sdb.GetBalance(blk.Coinbase))
	cbExisted := sdb.Exist(blk.Coinbase)
	w := &warmDB{StateDB: sdb, extra: extraWarm}
	evm := vm.NewEVM(bctx, core.NewEVMTxContext(msg), w, s.Cfg, vm.Config{})
	gp := new(core.GasPool).AddGas(msg.Gas())
	var er *core.ExecutionResult
	func() {
		defer func() {
			if r := recover(); r != nil {
				res.Panic = fmt.Sprint(r)
			}
		}()
		er, err = core.ApplyMessage(evm, msg, gp)
	}()
	if res.Panic != "" {
		return // state not committed
	}
	if err != nil {
		res.ConsensusErr = err.Error()
		return // nothing committed
	}
	if er.Err != nil {
		res.VMErr = er.Err.Error()
	}
	res.Ret = er.ReturnData
	res.GasUsed = er.UsedGas
	// take the tip back from the coinbase (documented difference)
	cbAfter := sdb.GetBalance(blk.Coinbase)
	if cbAfter.Cmp(cbBefore) != 0 {
		tip := new(big.Int).Sub(cbAfter, cbBefore)
		if tip.Sign() > 0 {
			// Only the fee part: value sent to the coinbase by the program stays. The fee part is
			// exactly gasUsed * effectiveTip.
			effTip := new(big.Int).Set(msg.GasPrice())
			if s.Cfg.IsLondon(big.NewInt(blk.Number)) {
				effTip = new(big.Int).Sub(msg.GasFeeCap(), blk.BaseFee)
				if msg.GasTipCap().Cmp(effTip) < 0 {
					effTip = new(big.Int).Set(msg.GasTipCap())
				}
			}
			fee := new(big.Int).Mul(effTip, new(big.Int).SetUint64(er.UsedGas))
			sdb.SubBalance(blk.Coinbase, fee)
		}
	}
	_ = cbExisted
	sdb.Finalise(true)
	res.Logs = sdb.GetLogs(tx.Hash(), blk.Hash)
	root, err := sdb.Commit(true)
	if err != nil {
		panic(err)
	}
	s.root = root
	return
}

// AcctView is the comparable projection of one account.
type AcctView struct {
	Exists   bool
	Nonce    uint64
	Balance  string
	CodeHash string
	Storage  map[string]string
	ZeroSlots int `json:",omitempty"` // informational: slots stored with an all-zero value (evermint side only)
}

func (v AcctView) Equal(o AcctView) bool {
	if v.Exists != o.Exists || v.Nonce != o.Nonce || v.Balance != o.Balance || v.CodeHash != o.CodeHash || len(v.Storage) != len(o.Storage) {
		return false
	}
	for k, x := range v.Storage {
		if o.Storage[k] != x {
			return false
		}
	}
	return true
}

var emptyCodeHash = common.HexToHash("0xc5d2460186f7233c927e7db2dcc703c0e500b653ca82273b7bfad8045d85a470")

// View of an account in the reference world.
func (s *Shadow) View(a common.Address) AcctView {
	sdb := s.open()
	v := AcctView{Storage: map[string]string{}}
	v.Exists = sdb.Exist(a)
	v.Nonce = sdb.GetNonce(a)
	v.Balance = sdb.GetBalance(a).String()
	ch := sdb.GetCodeHash(a)
	if ch == (common.Hash{}) || ch == emptyCodeHash {
		v.CodeHash = ""
	} else {
		v.CodeHash = ch.Hex()
	}
	_ = sdb.ForEachStorage(a, func(k, val common.Hash) bool {
		if val != (common.Hash{}) {
			v.Storage[k.Hex()] = val.Hex()
		}
		return true
	})
	return v
}

// SortedAddrs helper.
func SortedAddrs(m map[common.Address]struct{}) []common.Address {
	out := make([]common.Address, 0, len(m))
	for a := range m {
		out = append(out, a)
	}
	sort.Slice(out, func(i, j int) bool { return string(out[i].Bytes()) < string(out[j].Bytes()) })
	return out
}

// Accounts enumerates every account of the reference world (needs preimages, enabled in NewShadow).
func (s *Shadow) Accounts() []common.Address {
	sdb := s.open()
	d := sdb.RawDump(&state.DumpConfig{SkipCode: true, SkipStorage: true})
	out := make([]common.Address, 0, len(d.Accounts))
	for a := range d.Accounts {
		out = append(out, a)
	}
	return out
}
