package vh

import (
	"context"
	"fmt"
	"math/big"
	"strings"

	sdkmath "cosmossdk.io/math"
	"github.com/cosmos/cosmos-sdk/client"
	clienttx "github.com/cosmos/cosmos-sdk/client/tx"
	codectypes "github.com/cosmos/cosmos-sdk/codec/types"
	sdk "github.com/cosmos/cosmos-sdk/types"
	"github.com/cosmos/cosmos-sdk/types/tx/signing"
	authsigning "github.com/cosmos/cosmos-sdk/x/auth/signing"
	authtx "github.com/cosmos/cosmos-sdk/x/auth/tx"
	banktypes "github.com/cosmos/cosmos-sdk/x/bank/types"
	"github.com/ethereum/go-ethereum/common"
	ethtypes "github.com/ethereum/go-ethereum/core/types"
	ethcrypto "github.com/ethereum/go-ethereum/crypto"

	"github.com/EscanBE/evermint/v12/ethereum/eip712"
	evertypes "github.com/EscanBE/evermint/v12/types"
	evmtypes "github.com/EscanBE/evermint/v12/x/evm/types"
	evmutils "github.com/EscanBE/evermint/v12/x/evm/utils"
)

// EthSigner for this chain.
func EthSigner() ethtypes.Signer { return ethtypes.LatestSignerForChainID(big.NewInt(EIP155ID)) }

// SignEth signs tx data with the chain's latest signer.
func SignEth(a *Acct, txd ethtypes.TxData) *ethtypes.Transaction {
	tx, err := ethtypes.SignNewTx(a.Key, EthSigner(), txd)
	if err != nil {
		panic(err)
	}
	return tx
}

// WrapEth builds the canonical Cosmos envelope of a signed Ethereum transaction and encodes it.
// from is the declared sender (normally the signer).
func (c *Chain) WrapEth(tx *ethtypes.Transaction, from common.Address) []byte {
	bz, err := c.WrapEthErr(tx, from)
	if err != nil {
		panic(err)
	}
	return bz
}

func (c *Chain) WrapEthErr(tx *ethtypes.Transaction, from common.Address) ([]byte, error) {
	return c.WrapEthFromRaw(tx, from.Bytes())
}

// WrapEthFromRaw is WrapEthErr with the declared sender given as raw address bytes of any length.
func (c *Chain) WrapEthFromRaw(tx *ethtypes.Transaction, from []byte) ([]byte, error) {
	bin, err := tx.MarshalBinary()
	if err != nil {
		return nil, err
	}
	msg := &evmtypes.MsgEthereumTx{MarshalledTx: bin, From: sdk.AccAddress(from).String()}
	b := c.Enc.TxConfig.NewTxBuilder()
	builder, ok := b.(authtx.ExtensionOptionsTxBuilder)
	if !ok {
		return nil, fmt.Errorf("builder has no extension options")
	}
	opt, err := codectypes.NewAnyWithValue(&evmtypes.ExtensionOptionsEthereumTx{})
	if err != nil {
		return nil, err
	}
	builder.SetExtensionOptions(opt)
	if err := builder.SetMsgs(msg); err != nil {
		return nil, err
	}
	fee := sdkmath.NewIntFromBigInt(evmutils.EthTxFee(tx))
	fees := sdk.Coins{}
	if fee.Sign() > 0 {
		fees = sdk.Coins{sdk.NewCoin(Denom, fee)}
	}
	builder.SetFeeAmount(fees)
	builder.SetGasLimit(tx.Gas())
	return c.Enc.TxConfig.TxEncoder()(builder.GetTx())
}

// EthTx signs and wraps in one step.
func (c *Chain) EthTx(a *Acct, txd ethtypes.TxData) ([]byte, *ethtypes.Transaction) {
	tx := SignEth(a, txd)
	return c.WrapEth(tx, a.Addr), tx
}

// LegacyTx is a convenience constructor.
func LegacyTx(nonce uint64, to *common.Address, value *big.Int, gas uint64, price *big.Int, data []byte) *ethtypes.LegacyTx {
	if value == nil {
		value = new(big.Int)
	}
	return &ethtypes.LegacyTx{Nonce: nonce, To: to, Value: value, Gas: gas, GasPrice: price, Data: data}
}

// DynTx is a convenience constructor for a dynamic-fee transaction.
func DynTx(nonce uint64, to *common.Address, value *big.Int, gas uint64, feeCap, tipCap *big.Int, data []byte, al ethtypes.AccessList) *ethtypes.DynamicFeeTx {
	if value == nil {
		value = new(big.Int)
	}
	return &ethtypes.DynamicFeeTx{ChainID: big.NewInt(EIP155ID), Nonce: nonce, To: to, Value: value, Gas: gas,
		GasFeeCap: feeCap, GasTipCap: tipCap, Data: data, AccessList: al}
}

// CosmosOpts for a Cosmos-lane transaction.
type CosmosOpts struct {
	Gas        uint64   // default 400000
	GasPrice   *big.Int // default: current base fee * 2
	Fee        sdk.Coins
	Memo       string
	Timeout    uint64
	Seq        *uint64
	AccNum     *uint64
	ChainID    string
	Granter    sdk.AccAddress
	Payer      sdk.AccAddress
	DynamicTip *big.Int // adds ExtensionOptionDynamicFeeTx when non-nil
	ExtOpts    []*codectypes.Any
	NonCritExt []*codectypes.Any
	NoSign     bool
	// SignKind: "" = SIGN_MODE_DIRECT; "amino" = SIGN_MODE_LEGACY_AMINO_JSON; "eip712-direct" / "eip712-amino" = the
	// signature is over the repository's EIP-712 rendering of that mode's sign document (what a web3 wallet produces)
	SignKind string
	Ctx        *sdk.Context // state to read sequence/account number from (default committed)
}

// CosmosTxBuilder builds (and signs with a's key) a Cosmos transaction and returns the builder.
func (c *Chain) CosmosTxBuilder(a *Acct, msgs []sdk.Msg, o *CosmosOpts) (client.TxBuilder, error) {
	if o == nil {
		o = &CosmosOpts{}
	}
	txb := c.Enc.TxConfig.NewTxBuilder()
	if err := txb.SetMsgs(msgs...); err != nil {
		return nil, err
	}
	gas := o.Gas
	if gas == 0 {
		gas = 400000
	}
	txb.SetGasLimit(gas)
	fee := o.Fee
	if fee == nil {
		gp := o.GasPrice
		if gp == nil {
			gp = new(big.Int).Mul(c.BaseFee(), big.NewInt(2))
			if gp.Sign() == 0 {
				gp = big.NewInt(1)
			}
		}
		fee = sdk.NewCoins(sdk.NewCoin(Denom, sdkmath.NewIntFromBigInt(new(big.Int).Mul(gp, new(big.Int).SetUint64(gas)))))
	}
	txb.SetFeeAmount(fee)
	txb.SetMemo(o.Memo)
	txb.SetTimeoutHeight(o.Timeout)
	if o.Granter != nil {
		txb.SetFeeGranter(o.Granter)
	}
	if o.Payer != nil {
		txb.SetFeePayer(o.Payer)
	}
	if eb, ok := txb.(authtx.ExtensionOptionsTxBuilder); ok {
		var opts []*codectypes.Any
		if o.DynamicTip != nil {
			any, err := codectypes.NewAnyWithValue(&evertypes.ExtensionOptionDynamicFeeTx{MaxPriorityPrice: sdkmath.NewIntFromBigInt(o.DynamicTip)})
			if err != nil {
				return nil, err
			}
			opts = append(opts, any)
		}
		opts = append(opts, o.ExtOpts...)
		if len(opts) > 0 {
			eb.SetExtensionOptions(opts...)
		}
		if len(o.NonCritExt) > 0 {
			eb.SetNonCriticalExtensionOptions(o.NonCritExt...)
		}
	}
	if o.NoSign {
		return txb, nil
	}
	if err := c.SignCosmos(a, txb, o); err != nil {
		return nil, err
	}
	return txb, nil
}

// SignCosmos signs txb with a's key in SIGN_MODE_DIRECT.
func (c *Chain) SignCosmos(a *Acct, txb client.TxBuilder, o *CosmosOpts) error {
	if o == nil {
		o = &CosmosOpts{}
	}
	var ctx sdk.Context
	if o.Ctx != nil {
		ctx = *o.Ctx
	} else {
		ctx = c.QueryCtx()
	}
	var seq, accNum uint64
	if acc := c.App.AccountKeeper.GetAccount(ctx, a.Acc()); acc != nil {
		seq, accNum = acc.GetSequence(), acc.GetAccountNumber()
	}
	if o.Seq != nil {
		seq = *o.Seq
	}
	if o.AccNum != nil {
		accNum = *o.AccNum
	}
	chainID := o.ChainID
	if chainID == "" {
		chainID = ChainID
	}
	priv := a.PrivKey()
	mode := signing.SignMode_SIGN_MODE_DIRECT
	if o.SignKind == "amino" || o.SignKind == "eip712-amino" {
		mode = signing.SignMode_SIGN_MODE_LEGACY_AMINO_JSON
	}
	sig := signing.SignatureV2{PubKey: priv.PubKey(), Data: &signing.SingleSignatureData{SignMode: mode}, Sequence: seq}
	if err := txb.SetSignatures(sig); err != nil {
		return err
	}
	sd := authsigning.SignerData{ChainID: chainID, AccountNumber: accNum, Sequence: seq, PubKey: priv.PubKey(), Address: a.Bech32()}
	if strings.HasPrefix(o.SignKind, "eip712-") {
		signBytes, err := authsigning.GetSignBytesAdapter(context.Background(), c.Enc.TxConfig.SignModeHandler(), mode, sd, txb.GetTx())
		if err != nil {
			return err
		}
		typed, err := eip712.GetEIP712BytesForMsg(signBytes)
		if err != nil {
			return err
		}
		sg, err := priv.Sign(ethcrypto.Keccak256(typed))
		if err != nil {
			return err
		}
		return txb.SetSignatures(signing.SignatureV2{PubKey: priv.PubKey(), Data: &signing.SingleSignatureData{SignMode: mode, Signature: sg}, Sequence: seq})
	}
	sig2, err := clienttx.SignWithPrivKey(context.Background(), mode, sd, txb, priv, c.Enc.TxConfig, seq)
	if err != nil {
		return err
	}
	return txb.SetSignatures(sig2)
}

// CosmosTx builds, signs and encodes a Cosmos-lane transaction.
func (c *Chain) CosmosTx(a *Acct, msgs []sdk.Msg, o *CosmosOpts) []byte {
	txb, err := c.CosmosTxBuilder(a, msgs, o)
	if err != nil {
		panic(err)
	}
	bz, err := c.Enc.TxConfig.TxEncoder()(txb.GetTx())
	if err != nil {
		panic(err)
	}
	return bz
}

// Encode a builder's transaction.
func (c *Chain) Encode(txb client.TxBuilder) []byte {
	bz, err := c.Enc.TxConfig.TxEncoder()(txb.GetTx())
	if err != nil {
		panic(err)
	}
	return bz
}

// buildSentinel returns a decodable, unsigned bank transaction. It is refused by the ante
// handler ("no signatures") and writes nothing; it only exists so that the tx-boundary
// observer also sees the state left by the last real transaction of a block.
func (c *Chain) buildSentinel() []byte {
	from := sdk.AccAddress(common.HexToAddress("0x00000000000000000000000000000000005e4711").Bytes())
	msg := banktypes.NewMsgSend(from, from, sdk.NewCoins(sdk.NewCoin(Denom, sdkmath.OneInt())))
	txb := c.Enc.TxConfig.NewTxBuilder()
	if err := txb.SetMsgs(msg); err != nil {
		panic(err)
	}
	txb.SetGasLimit(1)
	txb.SetMemo("verif-sentinel")
	bz, err := c.Enc.TxConfig.TxEncoder()(txb.GetTx())
	if err != nil {
		panic(err)
	}
	return bz
}
