package vh

import (
	"fmt"
	"math/big"

	sdkmath "cosmossdk.io/math"
	abci "github.com/cometbft/cometbft/abci/types"
	sdk "github.com/cosmos/cosmos-sdk/types"
	authtypes "github.com/cosmos/cosmos-sdk/x/auth/types"
	banktypes "github.com/cosmos/cosmos-sdk/x/bank/types"
	"github.com/ethereum/go-ethereum/common"
	"github.com/ethereum/go-ethereum/core"
	ethtypes "github.com/ethereum/go-ethereum/core/types"
	"github.com/ethereum/go-ethereum/crypto"

	evmtypes "github.com/EscanBE/evermint/v12/x/evm/types"
)

// WorldOpts configure a generated Ethereum micro-world on a real chain.
type WorldOpts struct {
	Chain        Config
	NumEOA       int
	NumContracts int // generated contracts deployed in the warm-up
	Prog         ProgOpts
	ExtraPool    []common.Address // additional addresses programs may touch
	NoCosmos     bool             // no interleaved Cosmos transactions
}

// Contract deployed in the world.
type Contract struct {
	Addr     common.Address
	Prog     *Prog
	Deployer common.Address
}

// TxPlan is one generated transaction together with what the generator intended.
type TxPlan struct {
	Kind    string // "eth-call", "eth-create", "eth-transfer", "cosmos-send"
	Class   string // intended class: "ok", "stale-nonce", "future-nonce", "low-fee", "low-gas", "over-value", ...
	Sender  *Acct
	Tx      *ethtypes.Transaction
	Bytes   []byte
	To      *common.Address
	Note    string
	FeeKind string
}

// World couples a chain with a population of accounts and generated contracts.
type World struct {
	C         *Chain
	R         *RNG
	Opt       WorldOpts
	EOAs      []*Acct
	Contracts []*Contract
	Pool      []common.Address
	Track     []common.Address // additional addresses recorded by the ledger view
	pending   map[common.Address]uint64 // nonces consumed by plans of the block being composed
}

// FeeCollector / EVM module addresses.
var (
	FeeCollectorAddr = common.BytesToAddress(authtypes.NewModuleAddress(authtypes.FeeCollectorName))
	EvmModuleAddr    = common.BytesToAddress(authtypes.NewModuleAddress(evmtypes.ModuleName))
)

// NewWorld creates the chain, funds EOAs and deploys the generated contracts (warm-up blocks).
func NewWorld(r *RNG, o WorldOpts) *World {
	w := &World{R: r, Opt: o, pending: map[common.Address]uint64{}}
	if o.NumEOA == 0 {
		o.NumEOA = 6
	}
	cfg := o.Chain
	for i := 0; i < o.NumEOA; i++ {
		a := NewAcct(r)
		w.EOAs = append(w.EOAs, a)
		cfg.Accounts = append(cfg.Accounts, GenAccount{Addr: a.Addr, Coins: NativeCoins(1000)})
	}
	w.C = NewChain(cfg)
	w.Opt = o
	for _, a := range w.EOAs {
		w.Pool = append(w.Pool, a.Addr)
	}
	// a few never-funded addresses and low precompile-like addresses
	for i := 0; i < 3; i++ {
		w.Pool = append(w.Pool, common.BytesToAddress(r.Bytes(20)))
	}
	w.Pool = append(w.Pool, o.ExtraPool...)
	return w
}

// DeployGenerated deploys n generated contracts, a few per block, later ones may call earlier ones.
// onBlock (optional) sees every warm-up block.
func (w *World) DeployGenerated(n int, onBlock func(*ObservedBlock, []*TxPlan)) {
	for len(w.Contracts) < n {
		var plans []*TxPlan
		k := min(4, n-len(w.Contracts))
		var progs []*Prog
		for i := 0; i < k; i++ {
			po := w.Opt.Prog
			po.Pool = w.Pool
			po.Callees = w.calleeAddrs()
			if po.MaxLen == 0 {
				po.MaxLen = 8
			}
			p := GenProgram(w.R, po)
			progs = append(progs, p)
			s := Pick(w.R, w.EOAs)
			pl := w.PlanEth(s, nil, nil, 3_000_000, Deployer(p.Code), "ok", nil)
			pl.Kind = "eth-create"
			plans = append(plans, pl)
		}
		ob := w.RunPlans(plans, nil, onBlock)
		for i, pl := range plans {
			res := ob.Res.TxResults[i]
			if res.Code == 0 {
				addr := crypto.CreateAddress(pl.Sender.Addr, pl.Tx.Nonce())
				if len(w.C.App.EvmKeeper.GetCode(w.C.QueryCtx(), w.C.App.EvmKeeper.GetCodeHash(w.C.QueryCtx(), addr.Bytes()))) > 0 {
					w.Contracts = append(w.Contracts, &Contract{Addr: addr, Prog: progs[i], Deployer: pl.Sender.Addr})
					w.Pool = append(w.Pool, addr)
					continue
				}
			}
			// failed deployment still counts towards termination to avoid endless loops
			w.Contracts = append(w.Contracts, &Contract{Addr: crypto.CreateAddress(pl.Sender.Addr, pl.Tx.Nonce()), Prog: progs[i], Deployer: pl.Sender.Addr})
		}
	}
}

func (w *World) calleeAddrs() []common.Address {
	var out []common.Address
	for _, c := range w.Contracts {
		out = append(out, c.Addr)
	}
	return out
}

// NextNonce returns the nonce the next plan of this sender should use (committed + planned).
func (w *World) NextNonce(a common.Address) uint64 {
	return w.C.Nonce(a) + w.pending[a]
}

// Fee shapes relative to the current base fee.
type FeeShape struct {
	Type   int      // 0 legacy, 1 access-list, 2 dynamic
	Price  *big.Int // legacy / access-list price
	FeeCap *big.Int
	TipCap *big.Int
	Kind   string
}

// GenFee draws a fee shape. If admissibleOnly, the effective price is >= base fee.
func (w *World) GenFee(admissibleOnly bool) FeeShape {
	r := w.R
	bf := w.C.BaseFee()
	fs := FeeShape{Type: r.Intn(3)}
	unit := bf
	if bf.Sign() == 0 {
		// a zero base fee: prices are still drawn as non-trivial amounts (multiples of 1 gwei), so that fee caps above the
		// tip, tips and legacy prices remain distinguishable (all of them are admissible against a base fee of 0)
		unit = big.NewInt(1_000_000_000)
	}
	mul := func(n, d int64) *big.Int {
		v := new(big.Int).Mul(unit, big.NewInt(n))
		return v.Div(v, big.NewInt(d))
	}
	k := r.Intn(10)
	if admissibleOnly && k < 2 {
		k = 5
	}
	switch fs.Type {
	case 0, 1:
		switch {
		case k == 0:
			fs.Price, fs.Kind = mul(1, 2), "below"
		case k == 1:
			fs.Price, fs.Kind = new(big.Int).Sub(bf, big.NewInt(1)), "below-1"
			if fs.Price.Sign() < 0 {
				fs.Price, fs.Kind = new(big.Int), "zero"
			}
		case k == 2:
			fs.Price, fs.Kind = new(big.Int).Set(bf), "equal"
		case k == 3:
			fs.Price, fs.Kind = new(big.Int).Add(bf, big.NewInt(1)), "above+1"
		case k == 4:
			fs.Price, fs.Kind = mul(1000, 1), "x1000"
		default:
			fs.Price, fs.Kind = mul(int64(2+r.Intn(4)), 1), "above"
		}
	default:
		switch {
		case k == 0:
			fs.FeeCap, fs.TipCap, fs.Kind = mul(1, 2), big.NewInt(0), "cap-below"
		case k == 1:
			fs.FeeCap, fs.Kind = new(big.Int).Sub(bf, big.NewInt(1)), "cap-below-1"
			if fs.FeeCap.Sign() < 0 {
				fs.FeeCap = new(big.Int)
			}
			fs.TipCap = new(big.Int).Set(fs.FeeCap)
		case k == 2:
			fs.FeeCap, fs.TipCap, fs.Kind = new(big.Int).Set(bf), big.NewInt(0), "cap-equal-tip0"
		case k == 3:
			fs.FeeCap, fs.TipCap, fs.Kind = mul(3, 1), big.NewInt(int64(r.Intn(1000))), "tip-small"
		case k == 4:
			fs.FeeCap, fs.Kind = mul(2, 1), "tip-eq-cap"
			fs.TipCap = new(big.Int).Set(fs.FeeCap)
		case k == 5:
			fs.FeeCap, fs.TipCap, fs.Kind = mul(3, 2), mul(1, 1), "tip-capped" // base+tip > cap
		default:
			fs.FeeCap, fs.TipCap, fs.Kind = mul(int64(2+r.Intn(4)), 1), mul(1, int64(2+r.Intn(8))), "dyn"
		}
	}
	return fs
}

// PlanEth builds a signed Ethereum transaction plan. to == nil => create. fee == nil => admissible random fee.
func (w *World) PlanEth(s *Acct, to *common.Address, value *big.Int, gas uint64, data []byte, class string, fee *FeeShape) *TxPlan {
	if fee == nil {
		f := w.GenFee(true)
		fee = &f
	}
	nonce := w.NextNonce(s.Addr)
	switch class {
	case "stale-nonce":
		if nonce == 0 {
			class = "ok"
		} else {
			nonce = uint64(w.R.Intn(int(nonce)))
		}
	case "future-nonce":
		nonce += uint64(1 + w.R.Intn(3))
	}
	if value == nil {
		value = new(big.Int)
	}
	var txd ethtypes.TxData
	var al ethtypes.AccessList
	if fee.Type != 0 && w.R.Chance(1, 2) {
		n := w.R.Intn(3)
		for i := 0; i < n; i++ {
			t := ethtypes.AccessTuple{Address: Pick(w.R, w.Pool)}
			for j := w.R.Intn(3); j > 0; j-- {
				t.StorageKeys = append(t.StorageKeys, common.BigToHash(big.NewInt(int64(w.R.Intn(4)))))
			}
			al = append(al, t)
		}
	}
	switch fee.Type {
	case 0:
		txd = &ethtypes.LegacyTx{Nonce: nonce, To: to, Value: value, Gas: gas, GasPrice: fee.Price, Data: data}
	case 1:
		txd = &ethtypes.AccessListTx{ChainID: big.NewInt(EIP155ID), Nonce: nonce, To: to, Value: value, Gas: gas, GasPrice: fee.Price, Data: data, AccessList: al}
	default:
		txd = &ethtypes.DynamicFeeTx{ChainID: big.NewInt(EIP155ID), Nonce: nonce, To: to, Value: value, Gas: gas, GasFeeCap: fee.FeeCap, GasTipCap: fee.TipCap, Data: data, AccessList: al}
	}
	tx := SignEth(s, txd)
	bz, err := w.C.WrapEthErr(tx, s.Addr)
	if err != nil {
		panic(err)
	}
	pl := &TxPlan{Kind: "eth-call", Class: class, Sender: s, Tx: tx, Bytes: bz, To: to, FeeKind: fee.Kind}
	if to == nil {
		pl.Kind = "eth-create"
	}
	if class == "ok" || class == "" {
		w.pending[s.Addr]++
	}
	return pl
}

// IntrinsicGas of a plan's transaction under the chain's rules.
func IntrinsicGas(tx *ethtypes.Transaction) uint64 {
	g, err := core.IntrinsicGas(tx.Data(), tx.AccessList(), tx.To() == nil, true, true)
	if err != nil {
		return 0
	}
	return g
}

// PlanCosmosSend builds a bank send between EOAs.
func (w *World) PlanCosmosSend(s *Acct, to common.Address, amt int64) *TxPlan {
	seq := w.NextNonce(s.Addr)
	msg := banktypes.NewMsgSend(s.Acc(), sdk.AccAddress(to.Bytes()), sdk.NewCoins(sdk.NewCoin(Denom, sdkmath.NewInt(amt))))
	bz := w.C.CosmosTx(s, []sdk.Msg{msg}, &CosmosOpts{Seq: &seq, Gas: 200000})
	w.pending[s.Addr]++
	return &TxPlan{Kind: "cosmos-send", Class: "ok", Sender: s, Bytes: bz, To: &to}
}

// RunPlans executes the plans as one block with full observation.
func (w *World) RunPlans(plans []*TxPlan, opt *BlockOpt, onBlock func(*ObservedBlock, []*TxPlan)) *ObservedBlock {
	txs := make([][]byte, len(plans))
	for i, p := range plans {
		txs[i] = p.Bytes
	}
	ob := w.C.RunObserved(txs, opt, w.ViewFn, true)
	w.pending = map[common.Address]uint64{}
	if onBlock != nil {
		onBlock(ob, plans)
	}
	return ob
}

// LedgerView is the semantic view computed inside the observer for ledger-style monitors.
type LedgerView struct {
	Supply   map[string]string // denom -> total supply
	Balances map[common.Address]sdk.Coins
	Seq      map[common.Address]uint64
	EvmMod   sdk.Coins
	FeeColl  sdk.Coins
	BaseFee  *big.Int
}

// ViewTracked lists the addresses whose balances / sequences the ledger view records
// (defaults to the pool, refreshed per block).
func (w *World) tracked() []common.Address {
	out := append([]common.Address{}, w.Pool...)
	out = append(out, w.Track...)
	return out
}

// ViewFn computes the ledger view at a tx boundary.
func (w *World) ViewFn(ctx sdk.Context) any {
	app := w.C.App
	v := &LedgerView{Supply: map[string]string{}, Balances: map[common.Address]sdk.Coins{}, Seq: map[common.Address]uint64{}}
	app.BankKeeper.IterateTotalSupply(ctx, func(c sdk.Coin) bool {
		v.Supply[c.Denom] = c.Amount.String()
		return false
	})
	for _, a := range w.tracked() {
		v.Balances[a] = app.BankKeeper.GetAllBalances(ctx, a.Bytes())
		if acc := app.AccountKeeper.GetAccount(ctx, a.Bytes()); acc != nil {
			v.Seq[a] = acc.GetSequence()
		}
	}
	v.EvmMod = app.BankKeeper.GetAllBalances(ctx, EvmModuleAddr.Bytes())
	v.FeeColl = app.BankKeeper.GetAllBalances(ctx, FeeCollectorAddr.Bytes())
	v.BaseFee = app.FeeMarketKeeper.GetBaseFee(ctx).BigInt()
	return v
}

// EffectivePrice recomputes min(tip+baseFee, cap) / legacy price independently of the repository.
func EffectivePrice(tx *ethtypes.Transaction, baseFee *big.Int) *big.Int {
	if tx.Type() == ethtypes.DynamicFeeTxType {
		p := new(big.Int).Add(tx.GasTipCap(), baseFee)
		if p.Cmp(tx.GasFeeCap()) > 0 {
			p = new(big.Int).Set(tx.GasFeeCap())
		}
		return p
	}
	return new(big.Int).Set(tx.GasPrice())
}

// EventAttr returns the first attribute value of the first event of a type.
func EventAttr(res *abci.ExecTxResult, typ, key string) (string, bool) {
	for _, e := range res.Events {
		if e.Type == typ {
			for _, a := range e.Attributes {
				if a.Key == key {
					return a.Value, true
				}
			}
		}
	}
	return "", false
}

// HasEvent tells whether an event type is present.
func HasEvent(res *abci.ExecTxResult, typ string) bool {
	for _, e := range res.Events {
		if e.Type == typ {
			return true
		}
	}
	return false
}

// ReceiptOf decodes the consensus receipt carried by the tx_receipt event (nil if absent).
func ReceiptOf(res *abci.ExecTxResult) (*ethtypes.Receipt, map[string]string) {
	for _, e := range res.Events {
		if e.Type == evmtypes.EventTypeTxReceipt {
			attrs := map[string]string{}
			for _, a := range e.Attributes {
				attrs[a.Key] = a.Value
			}
			bz := common.FromHex(attrs[evmtypes.AttributeKeyReceiptMarshalled])
			rc := &ethtypes.Receipt{}
			if err := rc.UnmarshalBinary(bz); err != nil {
				return nil, attrs
			}
			return rc, attrs
		}
	}
	return nil, nil
}

func (p *TxPlan) String() string {
	if p.Tx != nil {
		to := "create"
		if p.Tx.To() != nil {
			to = p.Tx.To().Hex()
		}
		return fmt.Sprintf("%s/%s from=%s to=%s nonce=%d gas=%d value=%s type=%d fee=%s data=%x", p.Kind, p.Class, p.Sender.Addr.Hex(), to,
			p.Tx.Nonce(), p.Tx.Gas(), p.Tx.Value(), p.Tx.Type(), p.FeeKind, trunc(p.Tx.Data(), 40))
	}
	return fmt.Sprintf("%s/%s from=%s", p.Kind, p.Class, p.Sender.Addr.Hex())
}

func trunc(b []byte, n int) []byte {
	if len(b) > n {
		return b[:n]
	}
	return b
}

// Balances0 returns the recorded balances of a (zero coins when not tracked).
func (v *LedgerView) Balances0(a common.Address) sdk.Coins { return v.Balances[a] }

// ResetPending forgets nonces planned for the block just executed.
func (w *World) ResetPending() { w.pending = map[common.Address]uint64{} }
