# shared build helpers (sourced). Requires VERIF_ROOT, VERIF_REPO_DIR.
modfile_for_repo() {
  # The harness go.mod replaces the evermint module by /repo. For mutant runs
  # (VERIF_REPO_DIR != /repo) a generated modfile points at the scratch worktree instead.
  if [ "$VERIF_REPO_DIR" = "/repo" ]; then
    echo ""
  else
    local mf="$VERIF_ROOT/.build/alt-$(echo "$VERIF_REPO_DIR" | tr '/' '_').mod"
    sed "s#=> /repo\$#=> $VERIF_REPO_DIR#" "$VERIF_ROOT/harness/go.mod" > "$mf"
    cp "$VERIF_ROOT/harness/go.sum" "${mf%.mod}.sum"
    echo "-modfile=$mf"
  fi
}
gen_overlay() {
  # wall-clock "sanitizer": time.Now() = real + VERIF_WALLCLOCK_SKEW_S seconds (per process).
  local goroot; goroot="$(go env GOROOT)"
  local dir="$VERIF_ROOT/.build/overlay"
  mkdir -p "$dir"
  python3 "$VERIF_ROOT/scripts/gen_time_overlay.py" "$goroot" "$dir" || return 1
}
build_variant() {
  local variant="$1" name="$2"
  local out="${VERIF_BIN_ROOT:-$VERIF_ROOT/.build/bin}/$variant/$name"
  mkdir -p "$(dirname "$out")"
  local mf; mf="$(modfile_for_repo)"
  local flags="-tags verif"
  # runs against a scratch worktree (seeded changes): -trimpath makes unchanged packages share build-cache entries
  # across worktrees (otherwise every worktree costs ~3 GB of cache); registered checks (/repo) build as before
  if [ -n "$mf" ]; then flags="$flags -trimpath"; fi
  case "$variant" in
    race) flags="$flags -race";;
    asan) flags="$flags -asan";;
    skew) gen_overlay || return 1; flags="$flags -overlay $VERIF_ROOT/.build/overlay/overlay.json";;
  esac
  (cd "$VERIF_ROOT/harness" && go build $mf $flags -o "$out" "./cmd/$name") 
}

variants_for() {
  # build variants a property's check needs
  case "$1" in
    C01) echo "plain skew race";;
    C15) echo "plain skew";;
    C08|C14|C20) echo "plain race";;
    *) echo "plain";;
  esac
}
