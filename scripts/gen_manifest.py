#!/usr/bin/env python3
"""Regenerates /verif/MANIFEST.json from the table below (kept valid at all times)."""
import json, os, sys
root = os.path.dirname(os.path.dirname(os.path.abspath(__file__)))
props = [json.loads(l) for l in open(os.path.join(root, "properties.jsonl"))]
ids = [p["id"] for p in props]

CHECKS = {
 "C01": dict(cat="exploration", tech="runtime monitoring: record/replay differential - followers re-execute the recorded ABCI history in fresh processes under a skewed wall clock (time.Now overlay), other GOMAXPROCS, other node-local configuration, concurrent query load, kill/restart from disk; oracle = equality of consensus-visible traces",
   text="Held on the executions produced: one generated history (Ethereum, precompile and Cosmos transactions of many kinds, invalid/over-gas ones, validator churn, evidence) is re-executed by N followers that differ in exactly the things the property names; app hash, per-tx code/data/gas, events, validator and consensus-param updates must be identical block by block. The wall-clock sanitizer applies to every time.Now() in the binary, dependencies included.",
   note="Sampled on this machine/OS/Go toolchain only; the attribute Index flag and Log strings are outside the compared content; history generator aimed at the anchored non-determinism sources (vesting-expiry test, touched-map iteration, validator choice).", ref="§4 C01"),
 "C04": dict(cat="exploration", tech="runtime monitoring: per-transaction supply/balance ledger asserted at a tx-boundary observer hooked in front of the ante handler",
   text="Held on the executions produced: every generated Ethereum transaction (all outcome classes, fee shapes, block positions, finite and unlimited block gas) is bracketed by two full observations of x/bank (supply of every denom, all tracked balances, fee collector, EVM module account) on the real application; the oracle is the conservation law itself. Exploration is the right level: the property quantifies over transactions and contract behaviours, which only execution of the real state transition can exercise.",
   note="Trusts x/bank's own accounting and the harness' independent effective-price formula; inflation set to 0 so that only transactions move supply.", ref="§4 C04"),
 "C05": dict(cat="exploration", tech="runtime monitoring: sender-charge ledger and receipt/consensus-result cross-check at the tx-boundary observer",
   text="Held on the executions produced: for every admitted generated Ethereum transaction the sender's observed balance delta equals receipt gas used x independently recomputed effective price + value moved; rejected transactions have an empty full-store write set; gas used within [intrinsic, limit]; consensus GasUsed equals receipt gas used; cumulative gas is the running sum.",
   note="Exact-charge law is asserted for senders that no generated program can pay (kept out of the address pool); effective price recomputed from the raw transaction and the previous block's base fee.", ref="§4 C05"),
 "C02": dict(cat="exploration", tech="runtime monitoring: differential execution of every admitted transaction against go-ethereum's own core.ApplyMessage over its own state.StateDB (shadow world), post-state compared account by account",
   text="Held on the executions produced: each admitted generated transaction is re-executed by the reference state transition under the same block context; error class, VM error, return data, gas used, logs and the (nonce, balance, code hash, full storage, existence) of every account of either world are compared after every transaction, so divergences cannot hide behind later writes.",
   note="Reference shares the fork's interpreter by the property's own definition; documented differences (coinbase tip, warm coinbase and custom precompiles) applied as a thin wrapper; senders fenced to balance >= gasLimit x feeCap + value.", ref="§4 C02"),
 "C15": dict(cat="exploration", tech="runtime monitoring: account-kind ledger (concrete type, sequence, all balances, locked coins at block time, code/storage presence) asserted before and after every transaction at the tx-boundary observer; same monitor re-run under a skewed wall clock",
   text="Held on the executions produced: histories whose address pool is module accounts, vesting accounts of all kinds (funded/unfunded, end times on both sides of the block times the history passes, far from the real date), multi-denomination and empty base accounts and contracts; programs and direct transactions touch, pay, probe and self-destruct toward them and vesting accounts spend at and beyond their unlocked amount; protected accounts never disappear or change type, locked coins never leave, deletions only of genuinely empty or self-destructed accounts and without residue.",
   note="Delegation of locked coins is not treated as spending (staking precompile excluded from this workload); contracts deleted must be known self-destruct-capable programs.", ref="§4 C15"),
 "C12": dict(cat="exploration", tech="runtime monitoring: exhaustive product (registered method table x final call opcode x chain depth x STATICCALL position) of calldata-forwarder call chains executed as real transactions; per-transaction full-store write set and receipt logs observed at the tx-boundary observer",
   text="Held on the executions produced (apart from the listed finding): every registered method of every custom precompile kind is called through chains with a STATICCALL ancestor at every position for depths 1-4 and every final opcode, with arguments that demonstrably write outside a static context (controls); write set must stay within sender sequence + fee movement and no log may appear; read-only methods are also probed without static ancestor; state-changing methods must declare and consume gas. The method table is read at run time from the keeper's executor list, so new or re-declared methods are picked up.",
   note="Known finding (DESIGN §5 #5): non-static final opcode below a STATICCALL ancestor executes writes (defect in the go-ethereum fork); STATICCALL finals, read-only methods and the gas law remain fully checked. Signed-message variants cannot be satisfied by contract callers.", ref="§4 C12"),
 "C06": dict(cat="exploration", tech="runtime monitoring: per-account nonce ledger at the tx-boundary observer + must-reject hostile encodings + re-offering of every admitted transaction (same block, later blocks, CheckTx)",
   text="Held on the executions produced: for every offered transaction of both lanes the sender's sequence moves by exactly one iff the consensus result shows it was admitted (also when execution then fails, reverts or the block runs out of gas), the admitted nonce equals the pre-state sequence, no other account's sequence moves, rejected transactions have an empty full-store write set, and none of the hostile classes (unprotected, foreign chain id, From != signer, tampered payload/signature, stale/future nonce, Cosmos wrong sequence/account number/chain id/foreign key) nor any replay is ever admitted.",
   note="Admission is read from the consensus result (ante events present); signature malleability (high-s) is outside the statement and not asserted.", ref="§4 C06"),
 "C09": dict(cat="exploration", tech="runtime monitoring: differential of the real FeeMarketKeeper.CalculateBaseFee / EndBlock against an independent math/big EIP-1559 model on generated contexts (function level) and after every block of real histories (history level); price-bound assertion on every admitted transaction",
   text="Held on the executions produced: function level drives the real keeper over generated (Block.MaxGas incl. -1/0/1/2/MaxInt64, block-meter consumption around target and limit, base fee 0..2^256-1, fractional/clamping/huge min gas price) points incl. an enumerated boundary grid in thorough - any panic is a violation; history level runs real chains on 16 (MaxGas, genesis base fee, min gas price) variants with fill levels from empty to over-full, compares the fee_market event and stored parameter with the model applied to block gas recomputed from consensus results, and checks that every admitted Ethereum (3 types) and Cosmos (with/without dynamic-fee extension) transaction is priced at or above max(base fee, floor(min gas price)).",
   note="For MaxGas=0 both the literal (target 0) and the unlimited-block reading are accepted; with a zero target and usage > 0 any non-panicking result >= floor(min gas price) is accepted; a prescribed value above 2^256-1 is expected saturated. Mempool-only (CheckTx) pricing is not observed.", ref="§4 C09"),
 "C07": dict(cat="exploration", tech="runtime monitoring: reference lane predicate (written from the statement, evaluated on raw tx bytes) vs the real ante handler over a product of generated envelope shapes x execution modes; per-tx write sets and events at the tx-boundary observer",
   text="Held on the executions produced: shape families (clean Ethereum tx; Ethereum-shaped with 1-3 of 31 envelope defects; Ethereum message beside other messages; Ethereum / vesting-creation message inside authz exec at depth 1-6 through genesis grants and self-exec; grants for the four disabled type URLs; ordinary Cosmos transactions) are each run through Simulate, CheckTx new, CheckTx recheck, FinalizeBlock under the observer, and Prepare/ProcessProposal for crash-freedom. A must-reject shape violates iff any mode returns code 0 or the delivered write set / events show an inner handler or the other lane ran; every accepted transaction is checked for exactly one lane.",
   note="All cases are otherwise valid (real Ethereum and SIGN_MODE_DIRECT signatures, committed nonces, sufficient fees), shown by accepted twins counted as floors; authz/fee grants sit in genesis; governance and interchain-accounts routes are not driven; over-rejection is not a violation.", ref="§4 C07"),
 "C16": dict(cat="exploration", tech="runtime monitoring: vauth proof-store / auth-store / supply ledger at the tx-boundary observer with independent signature recovery (go-ethereum SigToPub and btcec RecoverCompact)",
   text="Held on the executions produced: the three vesting-creation messages (4 account kinds) top-level, multi-message and inside authz exec at depth 1-5 for 11 target classes; proof submissions with 24 signature renderings, submitter balances at/below/above fee, repeats, two per block / per tx. A new vesting record must have had a proof before that transaction; every new proof record must recover to the address in its key by two independent recoveries; no proof record is ever rewritten or deleted; supply falls by exactly the fixed fee per accepted submission and by 0 otherwise; submitter pays exactly fixed fee + declared tx fee on success; whole proof store and all vesting accounts rescanned after every block.",
   note="Fixed message and fee are read from the module's constants; a signature counts as made by the key iff both recoveries yield the account (the (r, n-s) twin counts); inflation 0; interchain-accounts host and passed governance proposals are not driven.", ref="§4 C16"),
}
WIP = "monitor designed in DESIGN.md §4 but not built yet in this revision (work in progress; will be claimed once its check exists and is silent on the unchanged tree)"
NA = {}

checks = []
for i in ids:
    if i in CHECKS:
        c = CHECKS[i]
        checks.append({
            "property_id": i,
            "quick_cmd": f"./check {i} quick",
            "thorough_cmd": f"./check {i} thorough",
            "evidence_file": f"evidence/{i}.json",
            "replay_cmd_template": f"./check {i} quick --replay {{path}}",
            "engine": "vharness",
            "level_claimed": {"category": c["cat"], "text": c["text"], "design_ref": c["ref"]},
            "level_note": c["note"],
            "technique": c["tech"],
        })
na = [{"property_id": i, "reason": NA.get(i, WIP)} for i in ids if i not in CHECKS]
m = {
 "version": 1,
 "setup_cmd": "./setup.sh",
 "hooks": {
   "guard": "verif (Go build tag)",
   "enable": "go build -tags verif (harness module /verif/harness with `replace github.com/EscanBE/evermint/v12 => /repo`)",
   "baseline_off_cmd": "cd /repo && go test -mod=mod -json -vet=off -count=1 -timeout 25m ./...",
   "source_commits": json.load(open(os.path.join(root, "hooks_commits.json"))) if os.path.exists(os.path.join(root, "hooks_commits.json")) else [],
   "add_only": True,
 },
 "engines": [
   {"name": "vharness", "path": "harness/", "serves_properties": [c["property_id"] for c in checks],
    "kind_free_text": "Go harness module that drives the real evermint application (direct ABCI driver with a tx-boundary observer, live CometBFT node for schedule properties), generators, reference models, shadow go-ethereum, evidence writer"},
 ],
 "checks": checks,
 "not_applicable": na,
 "notes": "All checks rebuild from /repo's working tree (go build with replace => /repo). Known findings are listed in known_findings.json; see DESIGN.md §5.",
}
json.dump(m, open(os.path.join(root, "MANIFEST.json"), "w"), indent=1)
print("claimed:", [c["property_id"] for c in checks])
