#!/usr/bin/env python3
"""Generate a go build overlay that replaces $GOROOT/src/time/time.go by a copy whose
Now() adds VERIF_WALLCLOCK_SKEW_S seconds (read once per process from the environment).
Only the standard library file is overlaid; nothing under /repo ever is."""
import json, os, re, sys
goroot, outdir = sys.argv[1], sys.argv[2]
src = os.path.join(goroot, "src", "time", "time.go")
text = open(src).read()
m = re.search(r"func Now\(\) Time \{\n\tsec, nsec, mono := now\(\)\n", text)
if not m:
    sys.exit("time.Now() has an unexpected shape in " + src)
text = text[:m.end()] + "\tsec += verifSkew()\n" + text[m.end():]
text += '''
var verifSkewVal int64
var verifSkewInit bool

// verifSkew returns the per-process wall-clock skew (seconds) configured through
// VERIF_WALLCLOCK_SKEW_S. Benign race on first use (both writers store the same value).
func verifSkew() int64 {
	if !verifSkewInit {
		s, _ := syscall.Getenv("VERIF_WALLCLOCK_SKEW_S")
		var v int64
		neg := false
		for i := 0; i < len(s); i++ {
			c := s[i]
			if i == 0 && c == '-' {
				neg = true
				continue
			}
			if c < '0' || c > '9' {
				break
			}
			v = v*10 + int64(c-'0')
		}
		if neg {
			v = -v
		}
		verifSkewVal = v
		verifSkewInit = true
	}
	return verifSkewVal
}
'''
if '"syscall"' not in text:
    text = text.replace('import (\n', 'import (\n\t"syscall"\n', 1)
dst = os.path.join(outdir, "time.go")
old = open(dst).read() if os.path.exists(dst) else None
if old != text:
    open(dst, "w").write(text)
ov = os.path.join(outdir, "overlay.json")
js = json.dumps({"Replace": {src: dst}})
if not os.path.exists(ov) or open(ov).read() != js:
    open(ov, "w").write(js)
