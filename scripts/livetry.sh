#!/bin/bash
# scripts/livetry.sh <cmd> <variant> "<seeds>" <leg:trials>... - development helper: runs live legs directly, prints one line each
cd "$(dirname "$0")/.."
set +m
cmdn="$1"; var="$2"; seeds="$3"; shift 3
d=.build/scratch/lv; rm -rf $d; mkdir -p $d
for seed in $seeds; do for lt in "$@"; do leg=${lt%:*}; n=${lt#*:}
 ( s=$(date +%s); env LIVE_LEG=$leg LIVE_TRIALS=$n LIVE_SEED=$seed LIVE_AGGRO=${LIVE_AGGRO:-2} LIVE_REPORT=$PWD/$d/$leg-$seed.json GORACE="halt_on_error=0 log_path=$PWD/$d/race-$leg-$seed" GOTRACEBACK=all .build/bin/$var/$cmdn > $d/$leg-$seed.out 2>&1; rc=$?
   echo "$leg seed=$seed rc=$rc $(( $(date +%s)-s ))s $(jq -c '{trials, sigs:(.signatures|length), viol:([.violations[]?.sig]|unique), inc:.inconclusive}' $d/$leg-$seed.json 2>/dev/null | cut -c1-400) races=$(cat $d/race-$leg-$seed.* 2>/dev/null | grep -c 'WARNING: DATA RACE') $(grep -m1 -h '^panic:\|^fatal error:' $d/$leg-$seed.out)" ) &
done; done 2>/dev/null
wait
