#!/bin/bash
# scripts/mut_confirm.sh <dir with patch.diff, demo/, meta.json> [full]
# Confirms a seeded change in a scratch worktree: demo passes on the clean tree, patch applies and builds,
# demo fails with the patch, and (with "full") the whole existing suite still passes with the patch (demo removed).
set -u
d="$(readlink -f "$1")"; full="${2:-}"
name="conf-$(basename "$(dirname "$d")" | tr . _)-$(basename "$d")"
wt="/tmp/mev/$name"
export GOFLAGS=-mod=mod GOPROXY=off GOSUMDB=off GOTOOLCHAIN=local
rm -rf "$wt"; git -C /repo worktree prune; mkdir -p /tmp/mev
git -C /repo worktree add --detach "$wt" HEAD >/dev/null 2>&1 || { echo "$name: cannot create worktree"; exit 3; }
trap 'git -C /repo worktree remove --force "$wt" >/dev/null 2>&1; rm -rf "$wt"' EXIT
demo_path="$(jq -r '.demo_path_in_repo // empty' "$d/meta.json")"
demo_cmd="$(jq -r '.demo_cmd // empty' "$d/meta.json")"
place_demo() {
  # demo/ either mirrors the repository layout or holds a single file meant for demo_path_in_repo
  n=$(find "$d/demo" -type f | wc -l)
  if [ "$n" = "1" ] && [ -n "$demo_path" ] && [ "${demo_path%/}" = "$demo_path" ] && [[ "$demo_path" == *.go ]]; then
    mkdir -p "$wt/$(dirname "$demo_path")"; cp "$(find "$d/demo" -type f)" "$wt/$demo_path"
  else
    (cd "$d/demo" && find . -type f) | while read -r f; do
      if [ -n "$demo_path" ] && [ ! -e "$wt/$(dirname "$f")" ] && [[ "$demo_path" != *.go ]]; then mkdir -p "$wt/$demo_path"; cp "$d/demo/$f" "$wt/$demo_path/$(basename "$f")";
      else mkdir -p "$wt/$(dirname "$f")"; cp "$d/demo/$f" "$wt/$f"; fi
    done
  fi
}
place_demo
cd "$wt"
echo "[$name] demo on clean tree: $demo_cmd"
( eval "$demo_cmd" ) > "$d/confirm.clean.log" 2>&1; rc_clean=$?
git apply "$d/patch.diff" || { echo "[$name] PATCH DOES NOT APPLY"; exit 3; }
go build ./... > "$d/confirm.build.log" 2>&1; rc_build=$?
( eval "$demo_cmd" ) > "$d/confirm.mut.log" 2>&1; rc_mut=$?
echo "[$name] demo clean rc=$rc_clean (want 0), build rc=$rc_build (want 0), demo with change rc=$rc_mut (want != 0)"
rc_suite="skipped"
if [ "$full" = "full" ] && [ $rc_clean -eq 0 ] && [ $rc_build -eq 0 ] && [ $rc_mut -ne 0 ]; then
  git status --porcelain | grep '^??' | awk '{print $2}' | xargs -r rm -rf   # remove the demo files
  # the repository's integration tests bind fixed ports: one suite at a time on this machine (flock), and a
  # package that failed is re-run alone (up to 3 times) before it counts as a failure
  ns="unshare -n bash -c"
  unshare -n bash -c "ip link set lo up; go test -vet=off -count=1 -timeout 25m ./..." > "$d/confirm.suite.log" 2>&1
  failed_pkgs=$(grep -E '^FAIL\s+github.com' "$d/confirm.suite.log" | awk '{print $2}' | grep -v 'evermint/v12/client$' | sort -u)
  still=""
  for pkg in $failed_pkgs; do
    ok=0
    for try in 1 2 3; do
      if unshare -n bash -c "ip link set lo up; go test -vet=off -count=1 -p 1 -timeout 25m $pkg" >> "$d/confirm.suite.retry.log" 2>&1; then ok=1; break; fi
    done
    [ $ok -eq 1 ] || still="$still $pkg"
  done
  :
  if [ -z "$still" ]; then rc_suite=pass; [ -n "$failed_pkgs" ] && rc_suite="pass (after re-running alone: $(echo $failed_pkgs | sed 's#github.com/EscanBE/evermint/v12/##g'))"; else rc_suite="FAIL:$still"; fi
fi
echo "[$name] suite: $rc_suite"
jq -n --arg clean "$rc_clean" --arg build "$rc_build" --arg mut "$rc_mut" --arg suite "$rc_suite" '{demo_on_clean_tree_rc:$clean, build_rc:$build, demo_with_change_rc:$mut, full_suite:$suite}' > "$d/confirm.json"
