#!/bin/bash
# scripts/mut_eval.sh <name> <patch.diff> <tier> <ID>...
# Applies a seeded change to a scratch worktree of /repo (outside /repo and /verif), runs the given checks
# against it (VERIF_REPO_DIR), prints one line per check and removes the worktree and its build output.
# Evidence / replays of these runs go to .build/mut/<name>/ (the committed evidence is not touched).
set -u
cd "$(dirname "$0")/.."
name="$1"; patch="$(readlink -f "$2")"; tier="$3"; shift 3
wt="/tmp/mev/$name"
export GOFLAGS=-mod=mod GOPROXY=off GOSUMDB=off GOTOOLCHAIN=local
rm -rf "$wt"; git -C /repo worktree prune
mkdir -p /tmp/mev
git -C /repo worktree add --detach "$wt" HEAD >/dev/null 2>&1 || { echo "$name: cannot create worktree"; exit 3; }
cleanup() { git -C /repo worktree remove --force "$wt" >/dev/null 2>&1; rm -rf "$wt" "/verif/.build/bin-mut-$name" /verif/.build/alt-_tmp_mev_$name.*
  # keep the Go build cache bounded (entries not used for 90 minutes)
  avail=$(df --output=avail -k / | tail -1); if [ "$avail" -lt 40000000 ]; then find "$(go env GOCACHE)" -type f -amin +90 -delete 2>/dev/null; fi; }
trap cleanup EXIT
if ! git -C "$wt" apply "$patch"; then echo "$name: patch does not apply"; exit 3; fi
out="/verif/.build/mut/$name"; rm -rf "$out"; mkdir -p "$out"
for id in "$@"; do
  st=$(date +%s)
  VERIF_REPO_DIR="$wt" VERIF_BIN_SUFFIX="-mut-$name" VERIF_OUT_DIR="$out" VERIF_SEED="${VERIF_SEED:-1}" ./check "$id" "$tier" > "$out/$id.log" 2>&1
  rc=$?
  sigs=$(for f in "$out"/replays/$id-*.json; do [ -f "$f" ] && jq -r .signature "$f"; done 2>/dev/null | sort | uniq -c | sort -rn | head -4 | awk '{printf "%s x%s; ", $2, $1}')
  verdict="MISSED"; [ $rc -eq 1 ] && verdict="DETECTED"; [ $rc -eq 2 ] && verdict="INCONCLUSIVE"; [ $rc -eq 3 ] && verdict="BUILD-FAILED"
  echo "$name $id $tier rc=$rc $verdict $(( $(date +%s)-st ))s $sigs $(grep -h 'INCONCLUSIVE\|BUILD-FAILED' "$out/$id.log" | head -1 | cut -c1-160)"
done
