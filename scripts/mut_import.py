#!/usr/bin/env python3
"""Imports confirmed seeded changes from /tmp/mut/<ID>.out/<X> into /verif/seeded/<ID><X>/ and writes seeded/INDEX.md.
Detection results are taken from .build/mut/<ID><X>/ (latest run per check) and from seeded/overrides.json (notes)."""
import json, os, shutil, glob, re, subprocess
root = '/verif'
notes = json.load(open(f'{root}/seeded/notes.json')) if os.path.exists(f'{root}/seeded/notes.json') else {}
rows = []
for d in sorted(glob.glob('/tmp/mut/C??.out/[AB]')) + sorted(glob.glob('/tmp/mut/C??.out2/[AB]')) + sorted(glob.glob('/tmp/mut/C??.out3/[AB]')) + sorted(glob.glob('/tmp/mut/C??.out4/[AB]')) + sorted(glob.glob('/tmp/mut/C??.out5/[AB]')) + sorted(glob.glob('/tmp/mut/C??.out6/[AB]')):
    pid = os.path.basename(os.path.dirname(d))[:3]; x = os.path.basename(d)
    if d.split('/')[-2].endswith('.out2'):
        x = {'A': 'C', 'B': 'D'}[x]  # second round
    if d.split('/')[-2].endswith('.out3'):
        x = {'A': 'E', 'B': 'F'}[x]  # third round
    if d.split('/')[-2].endswith('.out4'):
        x = {'A': 'G', 'B': 'H'}[x]  # fourth round
    if d.split('/')[-2].endswith('.out5'):
        x = {'A': 'I', 'B': 'J'}[x]  # fifth round
    if d.split('/')[-2].endswith('.out6'):
        x = {'A': 'K', 'B': 'L'}[x]  # sixth round
    name = pid + x
    if not os.path.exists(f'{d}/patch.diff') or not os.path.exists(f'{d}/meta.json'): continue
    if not os.path.exists(f'{d}/confirm.json'): continue  # not confirmed (yet)
    conf = json.load(open(f'{d}/confirm.json'))
    meta = json.load(open(f'{d}/meta.json'))
    note = notes.get(name, {})
    suite = note.get('full_suite', conf.get('full_suite', 'not run'))
    ok = conf.get('demo_on_clean_tree_rc') == '0' and conf.get('build_rc') == '0' and conf.get('demo_with_change_rc') not in (None, '0') and str(suite).startswith('pass')
    det = {}
    for lg in sorted(glob.glob(f'{root}/.build/mut/{name}/C??.log')):
        cid = os.path.basename(lg)[:3]
        txt = open(lg).read()
        sigs = []
        for rp in sorted(glob.glob(f'{root}/.build/mut/{name}/replays/{cid}-*.json')):
            try: sigs.append(json.load(open(rp))['signature'])
            except Exception: pass
        verdict = 'detected' if 'VIOLATION property=' in txt else ('inconclusive' if 'INCONCLUSIVE' in txt else 'missed')
        det[cid] = {'verdict': verdict, 'signatures': sorted(set(sigs))[:6]}
    status = 'kept' if ok and not note.get('rejected') else ('rejected' if note.get('rejected') or conf.get('demo_on_clean_tree_rc') != '0' or conf.get('build_rc') != '0' or conf.get('demo_with_change_rc') in (None, '0') or str(suite).startswith('FAIL') else 'suite-not-run-yet')
    rows.append((name, pid, meta.get('title', ''), status, det, note))
    if status != 'kept': continue
    out = f'{root}/seeded/{name}'
    shutil.rmtree(out, ignore_errors=True); os.makedirs(out)
    shutil.copy(f'{d}/patch.diff', out)
    shutil.copytree(f'{d}/demo', f'{out}/demo')
    meta2 = {'property': pid, 'title': meta.get('title'), 'what_breaks': meta.get('what_breaks'), 'needs_to_manifest': meta.get('needs_to_manifest'),
             'demo_path_in_repo': meta.get('demo_path_in_repo'), 'demo_cmd': meta.get('demo_cmd'), 'author': 'independent sub-agent given only the property text and a scratch worktree',
             'confirmed_by_me': {'how': 'scripts/mut_confirm.sh <dir> full in a scratch worktree of /repo HEAD: demo on clean tree, git apply, go build ./..., demo with the change, then the whole existing suite with the change (demo removed; packages that failed on port clashes re-run alone)',
                                 'demo_on_clean_tree_rc': conf.get('demo_on_clean_tree_rc'), 'build_rc': conf.get('build_rc'), 'demo_with_change_rc': conf.get('demo_with_change_rc'), 'full_suite': suite},
             'checks_run_against_it': {'how': 'scripts/mut_eval.sh: patch applied to a scratch worktree, ./check <ID> quick with VERIF_REPO_DIR pointing at it, VERIF_SEED=1', 'results': det},
             'notes': note.get('note', '')}
    json.dump(meta2, open(f'{out}/meta.json', 'w'), indent=1)
with open(f'{root}/seeded/INDEX.md', 'w') as f:
    f.write('# Seeded changes (written by independent sub-agents from the property text alone)\n\n| id | property | change | status | detected by (quick, seed 1) | missed by | note |\n|---|---|---|---|---|---|---|\n')
    for name, pid, title, status, det, note in rows:
        d = ', '.join(f"{c}" for c, v in det.items() if v['verdict'] == 'detected')
        m = ', '.join(f"{c}" for c, v in det.items() if v['verdict'] != 'detected')
        f.write(f"| {name} | {pid} | {title} | {status} | {d} | {m} | {note.get('note','')} |\n")
print('\n'.join(f"{r[0]} {r[3]} det={[c for c,v in r[4].items() if v['verdict']=='detected']} miss={[c for c,v in r[4].items() if v['verdict']!='detected']}" for r in rows))
