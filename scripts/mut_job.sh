#!/bin/bash
# scripts/mut_job.sh <ID> <X> <tier> <check IDs...> : confirm (with full suite) + evaluate one delivered change; appends to .build/mut/results.txt
# X in A,B -> /tmp/mut/<ID>.out/<X>; X in C,D -> /tmp/mut/<ID>.out2/{A,B} (second round)
cd "$(dirname "$0")/.."
id="$1"; x="$2"; tier="$3"; shift 3
case "$x" in A|B) d="/tmp/mut/$id.out/$x";; C) d="/tmp/mut/$id.out2/A";; D) d="/tmp/mut/$id.out2/B";; E) d="/tmp/mut/$id.out3/A";; F) d="/tmp/mut/$id.out3/B";; esac
mkdir -p .build/mut
{
  echo "=== $id$x $(jq -r .title $d/meta.json 2>/dev/null)"
  scripts/mut_confirm.sh "$d" full 2>&1 | grep "^\[" | grep -v "demo on clean tree:"
  scripts/mut_eval.sh "$id$x" "$d/patch.diff" "$tier" "$@" 2>&1 | tail -n $#
} >> .build/mut/results.txt 2>&1
