#!/bin/bash
# scripts/mut_job.sh <ID> <X> <tier> <check IDs...> : confirm (with full suite) + evaluate one delivered change; appends to .build/mut/results.txt
cd "$(dirname "$0")/.."
id="$1"; x="$2"; tier="$3"; shift 3
d="/tmp/mut/$id.out/$x"
mkdir -p .build/mut
{
  echo "=== $id/$x $(jq -r .title $d/meta.json 2>/dev/null)"
  scripts/mut_confirm.sh "$d" full 2>&1 | grep "^\[" 
  scripts/mut_eval.sh "$id$x" "$d/patch.diff" "$tier" "$@" 2>&1 | tail -n $#
} >> .build/mut/results.txt 2>&1
