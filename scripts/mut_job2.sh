#!/bin/bash
# scripts/mut_job2.sh <ID> <X> <tier> <check IDs...> : quick confirmation (demo both ways + build, no full suite) + evaluation
cd "$(dirname "$0")/.."
id="$1"; x="$2"; tier="$3"; shift 3
case "$x" in A|B) d="/tmp/mut/$id.out/$x";; C) d="/tmp/mut/$id.out2/A";; D) d="/tmp/mut/$id.out2/B";; E) d="/tmp/mut/$id.out3/A";; F) d="/tmp/mut/$id.out3/B";; G) d="/tmp/mut/$id.out4/A";; H) d="/tmp/mut/$id.out4/B";; I) d="/tmp/mut/$id.out5/A";; J) d="/tmp/mut/$id.out5/B";; K) d="/tmp/mut/$id.out6/A";; L) d="/tmp/mut/$id.out6/B";; esac
mkdir -p .build/mut
{
  echo "=== $id$x $(jq -r .title $d/meta.json 2>/dev/null)"
  scripts/mut_confirm.sh "$d" 2>&1 | grep "^\[" | grep -v "demo on clean tree:"
  scripts/mut_eval.sh "$id$x" "$d/patch.diff" "$tier" "$@" 2>&1 | tail -n $#
} >> .build/mut/results2.txt 2>&1
