#!/bin/bash
# scripts/mut_retest.sh <dir> <pkg...> : re-run given packages with the patch applied (suite flake triage)
d="$(readlink -f "$1")"; shift
wt="/tmp/mev/retest-$$"
export GOFLAGS=-mod=mod GOPROXY=off GOSUMDB=off GOTOOLCHAIN=local
git -C /repo worktree prune; mkdir -p /tmp/mev
git -C /repo worktree add --detach "$wt" HEAD >/dev/null 2>&1 || exit 3
trap 'git -C /repo worktree remove --force "$wt" >/dev/null 2>&1; rm -rf "$wt"' EXIT
cd "$wt"; git apply "$d/patch.diff" || exit 3
go test -vet=off -count=1 -p 1 "$@" 2>&1 | tail -15
