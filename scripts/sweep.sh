#!/bin/bash
# scripts/sweep.sh <tier> "<seeds>" <ID>...  - runs ./check for every ID (parallel across IDs, sequential over seeds)
# and prints one line per run. Development helper (silence sweeps); not a registered check.
cd "$(dirname "$0")/.."
tier="$1"; seeds="$2"; shift 2
mkdir -p .build/logs
for id in "$@"; do
  (
    for s in $seeds; do
      st=$(date +%s)
      VERIF_SEED=$s ./check "$id" "$tier" > ".build/logs/$id.$tier.$s.log" 2>&1
      rc=$?
      echo "$id tier=$tier seed=$s rc=$rc $(( $(date +%s) - st ))s $(grep -c '^VIOLATION' .build/logs/$id.$tier.$s.log) violations $(grep -c '^KNOWN-FINDING' .build/logs/$id.$tier.$s.log) known $(grep -h 'INCONCLUSIVE' .build/logs/$id.$tier.$s.log | head -1 | cut -c1-120)"
    done
  ) &
done
wait
