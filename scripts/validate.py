#!/usr/bin/env python3
# run with python3-vt (tooling venv has jsonschema)
import json, sys, glob, jsonschema
m = json.load(open('/verif/MANIFEST.json'))
jsonschema.validate(m, json.load(open('/root/.vp/MANIFEST.schema.json')))
es = json.load(open('/root/.vp/EVIDENCE.schema.json'))
cat = {c['property_id']: c['level_claimed']['category'] for c in m['checks']}
bad = 0
for f in sorted(glob.glob('/verif/evidence/*.json')):
    try:
        e = json.load(open(f))
        jsonschema.validate(e, es)
        pid = e['property_id']
        if pid in cat and cat[pid] != e['level']:
            raise Exception(f"level {e['level']} != manifest category {cat[pid]}")
        print('ok', f)
    except Exception as ex:
        bad += 1
        print('INVALID', f, str(ex)[:300])
claimed = set(cat); na = {n['property_id'] for n in m.get('not_applicable', [])}
ids = {json.loads(l)['id'] for l in open('/verif/properties.jsonl')}
if claimed | na != ids or claimed & na:
    bad += 1; print('INVALID manifest: claimed + not_applicable must partition the property ids')
sys.exit(1 if bad else 0)
