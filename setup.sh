#!/bin/bash
# Run once after a fresh restore (offline): warms the Go build cache and pre-builds the
# monitors of every claimed property (all build variants they need).
set -u
cd "$(dirname "$0")"
export VERIF_ROOT="$(pwd)"
export GOFLAGS=-mod=mod GOPROXY=off GOSUMDB=off GOTOOLCHAIN=local
export VERIF_REPO_DIR="${VERIF_REPO_DIR:-/repo}"
. ./scripts/buildlib.sh
mkdir -p .build/bin .build/scratch .build/logs evidence replays
rc=0
for id in $(jq -r '.checks[].property_id' MANIFEST.json); do
  n="$(echo "$id" | tr 'A-Z' 'a-z')"
  [ -d "harness/cmd/$n" ] || { echo "setup: no command for $id"; rc=1; continue; }
  for v in $(variants_for "$id"); do
    build_variant "$v" "$n" || { echo "setup: build failed for $n ($v)"; rc=1; }
  done
done
exit $rc
