#!/bin/bash
# Run once after a fresh restore (offline): warms the build cache and pre-builds the monitors.
set -u
cd "$(dirname "$0")"
export VERIF_ROOT="$(pwd)"
export GOFLAGS=-mod=mod GOPROXY=off GOSUMDB=off GOTOOLCHAIN=local
export VERIF_REPO_DIR="${VERIF_REPO_DIR:-/repo}"
. ./scripts/buildlib.sh
mkdir -p .build/bin .build/scratch .build/logs evidence replays
cp /repo/go.sum harness/go.sum.repo 2>/dev/null && rm -f harness/go.sum.repo
rc=0
for d in harness/cmd/*/; do
  n="$(basename "$d")"
  build_variant plain "$n" || { echo "setup: build failed for $n"; rc=1; }
done
exit $rc
